#!/bin/sh
# usage: run.sh <property id> [quick|thorough]
# Rebuilds the harness against /repo's current working tree (tag verif) and runs one check.
export GOFLAGS=-mod=mod GOPROXY=off GOSUMDB=off GOTOOLCHAIN=local
ROOT=$(cd "$(dirname "$0")" && pwd)
export VERIF_ROOT="$ROOT"
ID="$1"; TIER="${2:-${VERIF_TIER:-quick}}"
[ -n "$ID" ] || { echo "usage: run.sh <id> [quick|thorough]"; exit 2; }
cd "$ROOT/h" || exit 2
RACE=""; BIN=vcheck
case "$ID" in
  C01|C02|C03|C15|C22|C24|C25|C29|C30|C31|C32|C34|C38) RACE="-race"; BIN=vcheck-race ;;
esac
mkdir -p "$ROOT/.bin" "$ROOT/.work" "$ROOT/evidence"
TMPBIN="$ROOT/.bin/$BIN.$$"
# Registered checks always build against /repo's working tree. Background sweeps (vp run --with-repo)
# may point VERIF_REPO at a frozen snapshot instead, so that edits to /repo do not leak into them.
MODFILE=""
if [ -n "$VERIF_REPO" ] && [ "$VERIF_REPO" != "/repo" ]; then
  sed "s|=> /repo\$|=> $VERIF_REPO|" go.mod > "$ROOT/.work/go.alt.$$.mod"
  cp go.sum "$ROOT/.work/go.alt.$$.sum"
  MODFILE="-modfile=$ROOT/.work/go.alt.$$.mod"
fi
if ! go build $MODFILE -tags verif $RACE -o "$TMPBIN" ./cmd/vcheck > "$ROOT/.work/build.$$.log" 2>&1; then
  cat "$ROOT/.work/build.$$.log"; rm -f "$ROOT/.work/build.$$.log" "$TMPBIN"
  echo "BUILD-FAILED property=$ID (harness does not compile against /repo)"; exit 2
fi
rm -f "$ROOT/.work/build.$$.log" "$ROOT/.work/go.alt.$$.mod" "$ROOT/.work/go.alt.$$.sum"
mv -f "$TMPBIN" "$ROOT/.bin/$BIN"
if [ -n "$RACE" ]; then
  RL="$ROOT/.work/race-$ID-$$"; rm -f "$RL".*
  export GORACE="halt_on_error=0 exitcode=0 log_path=$RL"
  export VERIF_RACELOG="$RL"
fi
export GOTRACEBACK=all
OUT="$ROOT/.work/out-$ID-$$.log"
"$ROOT/.bin/$BIN" "$ID" --tier "$TIER" > "$OUT" 2>&1
RC=$?
cat "$OUT"
[ -n "$RACE" ] && rm -f "$RL".*
if [ $RC -eq 1 ] && ! grep -q "^VIOLATION property=" "$OUT" && grep -q "BADGER-ASSERT-FAILED" "$OUT"; then
  # a failed internal assertion of badger (log.Fatalf => exit 1) on valid API usage
  mkdir -p "$ROOT/replay/$ID"
  CR="$ROOT/replay/$ID/assert-seed${VERIF_SEED:-1}.log"
  cp "$OUT" "$CR"
  echo "VIOLATION property=$ID replay=$CR"
  echo "  signature: $ID|process-crash-in-badger"
  rm -f "$OUT"
  exit 1
fi
if [ $RC -eq 1 ] && ! grep -q "^VIOLATION property=" "$OUT" && ! grep -q "^RESULT property=" "$OUT"; then
  # exit status 1 with neither a verdict nor a violation line: the process was ended from outside the
  # check's own reporting (e.g. a log.Fatal that is not an assertion of badger): not a verdict
  echo "HARNESS-FAILURE property=$ID exit=1 without a RESULT line"
  rm -f "$OUT"
  exit 2
fi
if [ $RC -ne 0 ] && [ $RC -ne 1 ]; then
  # The process died. A panic / fatal error raised inside badger code while the property's
  # workload ran on valid API usage is a violation; anything else is a harness failure.
  if grep -q "^panic:\|^fatal error:" "$OUT" && grep -q "github.com/dgraph-io/badger/v4" "$OUT"; then
    mkdir -p "$ROOT/replay/$ID"
    CR="$ROOT/replay/$ID/crash-seed${VERIF_SEED:-1}.log"
    cp "$OUT" "$CR"
    echo "VIOLATION property=$ID replay=$CR"
    echo "  signature: $ID|process-crash-in-badger"
    rm -f "$OUT"
    exit 1
  fi
  echo "HARNESS-FAILURE property=$ID exit=$RC"
fi
rm -f "$OUT"
exit $RC
