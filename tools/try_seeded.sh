#!/bin/sh
# usage: try_seeded.sh <patch.diff> <check id>... ; applies the patch to /repo, runs the quick checks, reverts.
P="$1"; shift
cd /repo || exit 2
git diff --quiet || { echo "/repo has local changes"; exit 2; }
git apply "$P" || { echo "patch does not apply"; exit 2; }
trap 'git -C /repo checkout -- . ' EXIT INT TERM
for id in "$@"; do
  s=$(date +%s)
  VERIF_NOREPLAY=1 /verif/run.sh $id ${TIER:-quick} > /tmp/try-$id.log 2>&1
  rc=$?
  e=$(date +%s)
  echo "== $id rc=$rc $((e-s))s"
  grep -a -E "^VIOLATION|signature:|what:|^RESULT|^KNOWN|^INCONCL|BUILD-FAILED|HARNESS" /tmp/try-$id.log | cut -c1-400 | head -${LINES_MAX:-14}
done
