#!/usr/bin/env python3
"""Rewrites the table at the end of DESIGN.md (after the SEEDED_TABLE marker line) from seeded/*/meta.json."""
import json, glob, os
ROOT = os.path.dirname(os.path.dirname(os.path.abspath(__file__)))
rows = []
for f in sorted(glob.glob(os.path.join(ROOT, "seeded", "*", "meta.json"))):
    m = json.load(open(f))
    caught = "; ".join(f"{k}: `{v}`" for k, v in m.get("caught_by", {}).items()) or "—"
    rows.append(f"| {m['id']} | {m['property']} | {m['change']} | {m['needs']} | {caught} | {m.get('strengthened','—') or '—'} |")
tbl = "| id | property | change | needs, to manifest | caught by (quick tier, signature) | strengthened |\n|---|---|---|---|---|---|\n" + "\n".join(rows) + "\n"
p = os.path.join(ROOT, "DESIGN.md")
s = open(p).read()
mark = "<!-- SEEDED_TABLE -->"
if "SEEDED_TABLE\n" in s and mark not in s:
    s = s.replace("SEEDED_TABLE\n", mark + "\n")
i = s.index(mark)
s = s[: i + len(mark)] + "\n" + tbl
open(p, "w").write(s)
print(len(rows), "rows")
