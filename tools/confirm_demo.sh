#!/bin/sh
# usage: confirm_demo.sh <worktree> <outdir> : re-runs only the demonstration (with / without the patch) and updates confirm.json
export GOFLAGS=-mod=mod GOPROXY=off GOSUMDB=off GOTOOLCHAIN=local
WT="$1"; OUT="$2"
cd "$WT" || exit 2
DEMO=$(find . -name 'zz_*_test.go' | head -1)
PKG=$(dirname "$DEMO")
TAGS=""; grep -q "go:build verif" "$DEMO" && TAGS="-tags verif"
go test $TAGS -vet=off -count=1 -timeout 10m -run 'TestZZ|TestSeeded' "$PKG" > "$OUT/demo_with_patch.log" 2>&1; W=$?
git apply -R patch.diff
go test $TAGS -vet=off -count=1 -timeout 10m -run 'TestZZ|TestSeeded' "$PKG" > "$OUT/demo_without_patch.log" 2>&1; WO=$?
git apply patch.diff
python3 - "$OUT" $W $WO <<'PY'
import json,sys
out,w,wo=sys.argv[1],int(sys.argv[2]),int(sys.argv[3])
r=json.load(open(out+'/confirm.json'))
r['demo_fails_with_patch']=w!=0; r['demo_passes_without_patch']=wo==0
json.dump(r,open(out+'/confirm.json','w'),indent=1); print(out, r['demo_fails_with_patch'], r['demo_passes_without_patch'])
PY
