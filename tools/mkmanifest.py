#!/usr/bin/env python3
"""Generates /verif/MANIFEST.json from the table below. Run after adding a check."""
import json, os, subprocess, sys

ROOT = os.path.dirname(os.path.dirname(os.path.abspath(__file__)))

# id -> (category, technique, level text, level note, design ref)
CHECKS = {
 "C20": ("exploration", "runtime monitor: reference-model comparison of real encoders on generated inputs",
         "Real y.KeyWithTs/ParseKey/ParseTs/CompareKeys/SameKey, header, ValueStruct and valuePointer code run on ~0.5M (quick) generated hostile inputs and compared with independent reference implementations; sampled, not exhaustive.",
         "Trusts the 20-line reference comparator and the PRNG-driven generator; universal quantifier over byte strings is sampled.", "4/C20"),

 "C21": ("exploration", "runtime monitor: real MergeIterator vs reference merge on generated inputs",
         "table.NewMergeIterator over 1-9 generated sorted inputs compared step by step (Rewind/Next/Seek/random walks, both directions) with a reference sorted union with earliest-input precedence.",
         "Inputs obey the iterator precondition (sorted, duplicate-free per input); zero inputs not exercised; sampled.", "4/C21"),
 "C18": ("exploration", "runtime monitor: real SSTable build/open/iterate vs input slice, checkptr via -race not used here",
         "Real table.Builder/CreateTable/OpenInMemoryTable/Iterator/ConcatIterator run on generated entry sequences under sampled option combinations (block size, compression, AES, bloom, checksum mode, file/in-memory); every traversal, seek and metadata accessor is compared with the input.",
         "Option and entry space sampled; tables up to a few MB; 64-65KB keys included.", "4/C18"),
 "C19": ("exploration", "runtime monitor: bloom filter no-false-negative invariant on generated and adversarial hash sets",
         "y.NewFilter/MayContain and Table.DoesNotHave checked for every added key over random and adversarial hash sets and a false-positive ladder 1e-9..0.999.",
         "Hash space sampled, not all 2^32 hashes.", "4/C19"),
 "C22": ("exploration", "race detector + porcupine linearizability of recorded Put/Get histories + iterator invariants",
         "Real skl.Skiplist under sequential random Put sequences (vs sorted map) and under 6-12-way concurrent Put/Get/scan with unique tokens; histories checked per key with porcupine, scans checked for order/duplicates/torn values/missing completed puts; built with -race, reports inside skl are violations.",
         "Only interleavings the Go scheduler produced; many short histories.", "4/C22"),
 "C16": ("exploration", "runtime monitor: real log-file writer/replayer vs independent record model, byte-flip fault injection",
         "Real logFile.writeEntry/iterate/read/decodeEntry (through verif_export) on generated record sequences, plain and encrypted; delivered entries, value pointers and end offsets compared with an independent encoder (values up to 3 MiB); single-byte flips in key/value/crc regions must remove the record's group and everything after it.",
         "Flip positions sampled for large records; three records per file.", "4/C16"),
 "C17": ("exploration", "runtime monitor: real MANIFEST append/rewrite/replay vs reference map, truncation sweep and byte-flip injection",
         "Real manifestFile.addChanges (rewrite threshold 5-50; every third run starts with a stale MANIFEST-REWRITE file) and ReplayManifestFile on random change-set sequences; in-memory map, reference map and replay must agree after every set; every truncation offset since the last rewrite must replay to the last complete set; payload/crc flips must error.",
         "Duplicate CREATE (caller bug) not generated; length-field flips excluded (indistinguishable from torn tail).", "4/C17"),

 "C01": ("exploration", "history recording + MVCC reference model (offline read oracle), delay injection at hooks, race detector",
         "Concurrent recorded histories (8-12 clients, RO/RW/long-lived snapshots) on 10 option variants with tiny memtables, background compaction, a GC loop in half of the histories and seeded delays at commit/flush/compaction/GC points; every Get and iterator result (tens of thousands per run) is compared offline with Visible(key, readTs) of a model built from marker-resolved commit timestamps; plus two deterministic GC/flush interleavings (GC write-back of an older version while the newest awaits a held flush; delete + compaction between GC scan and write-back).",
         "Only interleavings the scheduler and injected delays produce; AllVersions iteration checked in C05; histories with a GC loop hit the known GC-resurrection defect (known_findings.json).", "4/C01"),
 "C02": ("exploration", "history recording + conflict oracles (must-reject / must-accept) + bank invariant monitor, delay injection, race detector",
         "Recorded RW histories on 5-10 keys in normal and managed mode incl. long-running transactions; oracle (a) no committed T overlaps a committed writer of a key it read, (b) every ErrConflict is justified, (c) rejected commits leave no marker; bank auditors assert the balance sum on every snapshot; single-goroutine managed-mode scripts with several open transactions and non-monotonic CommitAt timestamps judged by the exact must-reject/must-accept rule.",
         "Fingerprint collisions ignored; no drops/closes/oversized transactions in this workload; concurrent managed histories use monotone harness-chosen timestamps, the script family arbitrary ones (Gets only: iterators register prefetched items as read).", "4/C02"),
 "C03": ("exploration", "history recording + commit-order/visibility oracles + porcupine register check, delay injection, race detector",
         "Recorded histories with >=3-key writers, read-all readers, 40% CommitWith, every second history with a concurrent DropPrefix of an unrelated prefix (commits refused with ErrBlockedWrites after taking a timestamp); distinct marker versions, real-time order implies timestamp order, post-ack transactions have ReadTs >= ts, all-or-none via the read oracle, rejected commits leave no marker, porcupine per-key register linearizability.",
         "Rejections here are conflicts and ErrBlockedWrites; size-limit/closed-DB rejections are covered in C28/C38.", "4/C03"),
 "C04": ("exploration", "history recording + overlay reference model for own pending writes",
         "1-3 clients, up to 10 pending writes per transaction (meta, past/future expiry, discard, delete) each followed by Get/iterators created after the write; oracle overlays the pending map on the snapshot; watermark pinned so AllVersions is exact.",
         "Seeks under a configured Prefix carry the prefix.", "4/C04"),
 "C05": ("exploration", "history recording + independent iterator reference implementation over data spread across memtable/L0/levels",
         "Histories over 32-64 hostile keys with ~90% iterator reads of every option shape while flushes and compactions spread data over the levels; pinned watermark makes AllVersions exact; item-by-item comparison with the reference iterator.",
         "Seeks under a configured Prefix carry the prefix (semantic boundary documented in DESIGN).", "4/C05"),
 "C06": ("exploration", "history recording + full value digest comparison across a size ladder and four read paths",
         "Value sizes 0..64KiB around static thresholds and dynamic VLogPercentile thresholds; every read path compared by digest during the run, after it and after re-open; large-value family (1 MiB-1 .. 5 MiB next to small values) read back after two clean re-opens and after a GC pass.",
         "GC excluded from the concurrent histories (C15); sizes up to 64 KiB there, up to 5 MiB in the sequential family.", "4/C06"),

 "C27": ("exploration", "runtime monitor: call-order reference model of WriteBatch vs state read back at every (key, version)",
         "Random WriteBatch call sequences in three modes (NewWriteBatch, NewWriteBatchAt, NewManagedWriteBatch with alternating versions), 1-2000 calls cutting 0-40 internal transactions; after Flush every (key, version) must hold the last call's effect.",
         "Compaction disabled so every version stays readable; sampled sequences.", "4/C27"),
 "C28": ("exploration", "runtime monitor: statement predicate vs real validation over boundary ladders; accepted-size boundary sweep",
         "Part A compares err!=nil of Set/Delete/Get with the statement's predicate over key/value/namespace boundary ladders on disk, in-memory and namespace configurations and checks that rejected calls leave the transaction unaffected; part B sweeps every accounted size in the last 64 bytes below the largest accepted transaction (n=1..12 entries, 3 memtable sizes, small and 19-digit commit timestamps) and the last counts below the count limit: Commit must not return ErrTxnTooBig.",
         "Ladders, not all sizes; memtable 8 MiB in part A so single writes fit.", "4/C28"),

 "C12": ("exploration", "deterministic flush/compaction driver on production pickers + read-invariance oracle against the MVCC model after every step",
         "No background compactors; PRNG-chosen sequences of commits, flushes, production-picker compactions (as compactor 0/1/2), forced level compactions, back-dated L0->L0, Lmax->Lmax rewrite, snapshots and SetDiscardTs over 6 option sets, normal and managed; after every flush/compaction all keys are read now, through every open snapshot and at sampled managed timestamps >= discardTs and compared with the model; key-locality and pivot modes give L0 tables different, partly overlapping ranges; flush-held steps leave a rotated memtable unflushed during commits and reads; targeted L0->L0 (older oversized table left out), Lmax->Lmax (>10 MiB stale) and boundary-tombstone (level n table ending in the tombstone of a key whose older version starts a level n+1 table) families.",
         "Sequential driver (concurrent compactions covered by C01/C05 background histories); GC excluded (C15); table ages are back-dated through a verif-only export.", "4/C12"),

 "C13": ("exploration", "deterministic compaction driver + retention lower-bound oracle (MustRetain) over AllVersions scans; hook cross-check of the discard timestamp",
         "Driver histories with NumVersionsToKeep 1/2/3/unbounded, deletes, expiry, discard-earlier and merge-operator entries, snapshots and SetDiscardTs; after every flush/compaction the AllVersions scan must contain MustRetain(key, U, keep) where U is an independently computed upper bound of every discard timestamp; the discard ts reported by the compaction hook must not exceed U.",
         "MustRetain is a lower bound (sound for partial-input compactions), not an exact retention model; merge entries only in normal mode.", "4/C13"),
 "C14": ("exploration", "deterministic compaction driver + structural validator on DB.Tables()/MANIFEST/directory at quiescent points and after re-open",
         "Driver histories with several tables per level and split sub-compactions; after every flush/compaction and after close/re-open: levels >=1 sorted, disjoint, no user key split across tables, files == MANIFEST == Tables(), VerifyChecksum, Open succeeds.",
         "Crash-interrupted histories are validated by C08 with the same validator.", "4/C14"),
 "C15": ("exploration", "compaction/GC driver + read-invariance oracle around every RunValueLogGC; concurrent histories with a GC loop and delays at GC phases; deterministic open-item scenarios; race detector",
         "Driver histories with small vlog files and discard statistics, GC at ratios 0.001-0.9, normal and managed, reads compared with the model after every GC/compaction; concurrent recorded histories with GC loop and delays at gc.afterScan/gc.beforeDelete; scenarios: delete-then-GC-then-compact, delete between GC scan and write-back with a compaction into a non-last base level, GC write-back while the newest version awaits a held flush, Items held by an open transaction across a rewrite.",
         "Two genuine defects are listed in known_findings.json (GC resurrects a deleted key; Txn.Get item unreadable after its vlog file is rewritten).", "4/C15"),

 "C07": ("exploration", "compaction driver + dump equality across close/re-open kinds + file-tree hash around read-only sessions (+ strace in the thorough tier)",
         "Driver histories stopped with unflushed memtables, pending L0 and vlog tails; 3-5 close/re-open cycles (read-write, read-only, changed compaction settings); AllVersions dump before Close must equal the dump after Open and the model; tree hash unchanged across read-only open+read; thorough: strace rejects write-class syscalls in a read-only session.",
         "GC only without deletes (known C15 finding).", "4/C07"),
 "C11": ("exploration", "compaction driver + max-stored-version oracle after every kind of re-open",
         "After clean re-open (newest data in WAL / L0 / deeper level), DropAll and re-open after DropAll: max version over an InternalAccess+AllVersions scan, then a new commit must get a larger version and be what the next read returns; the same oracle runs after Load (C24), StreamWriter.Flush (C26) and crash recovery (C08).",
         "Normal mode only.", "4/C11"),
 "C24": ("exploration", "driver-built sources + backup/load round trip compared with the model; concurrent history with backups taken during commits; race detector",
         "Full backups of quiescent databases (keep=1: visible state; unbounded versions: AllVersions equals Stream.Backup's reference rules) and 3-5 step incremental chains taken while 6 committers write; the loaded chain must reproduce the final visible state; C11 oracle after Load.",
         "Load on an idle target; last backup of a chain on the quiescent source.", "4/C24"),
 "C25": ("exploration", "recorded concurrent history + Send recorder + per-key admissible-snapshot interval intersection; delay injection at stream hooks; race detector",
         "Stream runs (NumGo 1-16, Prefix, ChooseKey, SinceTs) concurrent with 8 committers; for every chosen key the set of snapshot timestamps explaining what was delivered is intersected with [last ack before Orchestrate, inf); empty intersection = violation; each key once; Send never concurrent; quiescent layout family (few small tables + memtables over lower/higher/overlapping ranges, NumGo 1/2/8): every visible key exactly once.",
         "Default ToList with NumVersionsToKeep=1.", "4/C25"),

 "C26": ("exploration", "runtime monitor: StreamWriter output compared with the streamed entries (model) after Flush and after re-open, plus structure validator",
         "Generated sorted entry sets cut into 1-8 streams with random batching, interleaved stream ids and done markers, written through Prepare or 1-3 PrepareIncremental rounds (every fourth run: 3000-6000 keys with one goroutine per stream calling Write concurrently), normal and managed, plain/compressed/encrypted; full state incl. AllVersions must equal the streamed entries (+ pre-existing data), C14 validator, C11 oracle.",
         "Streams obey the API precondition (sorted, non-overlapping); compaction disabled.", "4/C26"),
 "C30": ("exploration", "uniqueness/monotonicity monitor over all numbers handed out by concurrent Sequence objects across Release, restarts and injected crashes (E2); race detector",
         "2-8 goroutines on 1-4 Sequence objects for one key (bandwidth 1-5), 2-4 epochs separated by Release and close/re-open; every number returned with nil error is logged; globally unique, strictly increasing per object and caller; crash epochs (E2): 3 goroutines on Sequence objects in a workload child that is SIGKILLed at a random hook event 2-3 times on the same directory, a clean session after each kill; all numbers of all epochs pairwise different.",
         "Numbers compared as returned; a Next/GetSequence that returned an error handed out nothing.", "4/C30"),
 "C31": ("exploration", "recorded Add/Get call/return history checked by a direct append-list monitor and (small histories) porcupine; race detector",
         "2-6 clients on one MergeOperator with list-append merge function, merge interval 1-40 ms, tiny memtables with background flush/compaction, 2-3 phases separated by Stop/Close/re-open; Gets must return duplicate-free prefixes-comparable lists containing every completed Add in real-time-consistent order.",
         "Merge function associative; interleavings from the merge ticker.", "4/C31"),
 "C32": ("exploration", "reference matcher on user keys + delivery log compared as a multiset with the marker-resolved committed writes; race detector",
         "2-6 subscribers with hostile prefix/ignore patterns registered before 6 committers write hostile keys; each subscriber's deliveries must equal exactly the committed writes whose user key matches, once each, in non-decreasing version order; cancellation ends Subscribe.",
         "Registration confirmed via a verif-only subscriber count; !badger! keys ignored.", "4/C32"),

 "C36": ("exploration", "managed-mode compaction driver + read-invariance oracle at arbitrary read timestamps against the MVCC model",
         "Managed driver histories with CommitAt at non-monotonic and repeated timestamps, managed write batches with per-entry versions, flush/compaction steps incl. L0->L0, snapshots at arbitrary timestamps and SetDiscardTs movement; after every step reads at the newest timestamp, through snapshots and at sampled timestamps >= discardTs are compared with the model; two families: per-key monotone timestamps (must be clean) and fully arbitrary timestamps (known finding listed).",
         "Timestamps above the discard ts; SetDiscardTs never above an open read ts.", "4/C36"),

 "C29": ("exploration", "sequential drop scripts vs model (+ re-open, structure validator); concurrent blind-writer histories with drops classified by call/return order; crash injection inside drops (E2); race detector",
         "Sequential scripts with DropPrefix over hostile prefixes and DropAll between commits/batches/flushes/compactions, state compared with the model after every drop and after re-open; concurrent histories where DropPrefix runs 2-4 times against 6 blind writers: writes acknowledged before the call gone, writes after the return present, overlapping ones all-or-nothing per transaction, other keys unchanged, ErrBlockedWrites leaves no trace, writes accepted afterwards; concurrent DropAll: nothing acknowledged before the call survives; crash family (E2): workload child with a DropPrefix loop SIGKILLed at drop-phase points, at events of the drop's flushes/compactions and at random events - commit-prefix oracle on markers, dropped keys absent after a completed drop, pre-drop value or absent when the drop was cut short.",
         "Concurrent clients are blind writers; DropAll is not part of the crash family.", "4/C29"),
 "C37": ("exploration", "twin run of one pre-drawn script on an InMemory and an on-disk database + strace of an InMemory child process",
         "Scripts (transactions, write batches, flush, compactions, DropPrefix, DropAll) executed on both databases; after every step both are compared with the model and line by line with each other; an InMemory child runs under strace -f in an empty directory: no file-creating/writing syscall, directory stays empty.",
         "Values within the in-memory limit; no GC.", "4/C37"),

 "C33": ("exploration", "compaction driver + model oracle on every read path (Get, iterators, Stream, Backup+Load), GC family, one guarded wall-clock case",
         "Driver histories with ~45% expiring writes (stamps >= 10^6 s from the clock) mixed with deletes/overwrites over all placements and compaction kinds, normal and managed; Get/iterators checked after every step, Stream and Backup+Load at mid-run points and at the end; GC over expired value-log entries; TTL 2 s case judged only >= 1 s away from the boundary.",
         "Clock-independent except the guarded case; GC family uses write-once keys (known GC finding).", "4/C33"),

 "C23": ("exploration", "twin run encrypted vs plain + on-disk plaintext scan (needles) + IV-uniqueness monitor on a hook + wrong-key opens with tree hash + rotate command",
         "Pre-drawn scripts on AES-128/192/256 databases with data-key rotation 1 ms..10 days vs the same script on a plain database (identical reads, equal to the model); 12-byte needles of every value/long key searched in every file at mid-run copies, after close and after re-open; hook-logged (data key id, IV) pairs never repeat; different key / no key / key on plain DB refused with ErrEncryptionKeyMismatch without changing files; old data keys readable after re-open; master-key rotation through the built badger rotate command.",
         "Needle collisions negligible; compression off; crash-time scans belong to the crash engine.", "4/C23"),
 "C34": ("exploration", "shadow-counter monitor on the real y.WaterMark + hook-fed in-flight-commit monitor inside the oracle lock + read oracle; delay injection; race detector (reports in y/watermark.go or the oracle are violations)",
         "(i) y.WaterMark driven by 4-16 goroutines under badger's usage contract with shadow counters and an observer around DoneUntil(): no index <= DoneUntil may have more returned Begins than started Dones, waiters return only once DoneUntil >= index and are never stranded; (ii) recorded histories of many small commits and transaction starts with delays at commit.afterTs / write.afterVlog / commit.beforeDone / readts.beforeWait: no read timestamp granted while a commit at or below it is in flight, every transaction sees all commits <= its read timestamp; (iii) stop behaviour: after the closer is signalled no Begin/Done/WaitForMark blocks.",
         "Bounded: interleavings come from contention and injected yields, not from exhaustive enumeration; lost wake-up judged by state (everything done, waiter still blocked), not by a bare timeout.", "4/C34"),
 "C35": ("exploration", "process-level monitor: coordinator + child processes + in-process actors against an flock reference model",
         "3 child processes and 2 in-process actors run PRNG-chosen sequences of open-read-write / open-read-only / close on databases with shared, separate and half-shared Dir/ValueDir, plus racing read-write opens released together; every outcome is compared with the flock model (read-write iff no holder of either directory, read-only iff no read-write holder, at most one racer wins, Close releases).",
         "Linux flock semantics; BypassLockGuard is outside the claim.", "4/C35"),
 "C38": ("exploration", "stress workload with call tracker + state-based no-progress detector (two goroutine dumps + completed-call counter); delay injection; race detector",
         "2-4 compactors, 16 KiB memtables, L0 stall at 2-3 tables; 6 committers (Commit/CommitWith), 3 readers/iterators, a WriteBatch flusher and a maintenance goroutine (RunValueLogGC, DropPrefix, DropAll, Flatten, Subscribe+cancel) run with delays at flush/compaction/drop points, then Close is called while committers keep committing; a call older than 45 s starts the analysis: unchanged blocked badger stacks and no completed call over 8 s = violation with the dump as witness, otherwise inconclusive; a panic inside badger raised by a public call is a violation.",
         "Liveness restated as bounded progress; readers are excluded while DropAll runs (documented precondition of DropAll); StreamWriter is exercised in C26.", "4/C38"),
 "C08": ("fault_enumeration", "crash injection: SIGKILL of a workload child at hook events (persistence events + schedule points) and strace-injected SIGKILL on syscall entry; side log of issue/ack/commit-ts; verifier child re-opens; commit-prefix/atomicity oracle + structure validator",
         "Per configuration (deletes / GC loop / SyncWrites; plain, AES, compressed; one configuration runs the production MANIFEST rewrite every few ms through a verif export) a counting run records the hook-event sequence; children are killed at the first, last and random occurrences of every event class (file create/sync/truncate/rename/unlink/dir sync/MANIFEST append, commit, write, flush, compaction and GC phase points) and at uniformly random events, plus strace kills on entry to the N-th unlinkat/ftruncate/renameat/msync (multi-step file operations inside ristretto); after each kill a verifier child opens the directory twice: Open succeeds, every acknowledged commit is in the recovered set S, no logged commit timestamp below max(S) is missing, the state equals S applied in timestamp order (token, length, version), WriteBatch entries form a prefix and are complete when acknowledged, structure validator, new commit above every stored version.",
         "Page cache survives (process kill). Event numbering varies between runs of the concurrent workload: evidence counts the classes actually hit. Stratified sample of events in the quick tier, several hundred per configuration in the thorough tier, not every event of every trace.", "4/C08"),
 "C09": ("fault_enumeration", "fault injection on crash images: independent record parser + tail cutter (truncate / zero-fill) on the newest WAL, value log and MANIFEST; verifier child re-opens; exact recovered-set oracle",
         "Crash images of the C08 workload (killed without Close; killed right after a MANIFEST append; plain and AES); for every header and checksum byte, the edges and sampled interior offsets of keys and values of the last transactions of the newest WAL, the last records of the newest value log file and every byte of the last MANIFEST record, a truncated and a zero-filled copy is opened: Open succeeds; WAL: recovered set = undamaged set minus exactly the transactions whose end marker is not wholly before the cut, state = that set applied in order; value log: no read returns other bytes than the written value without an error (an empty value with nil error is accepted only for values whose record is damaged: badger's deliberate behaviour); MANIFEST: state unchanged.",
         "One file damaged at a time, everything before the cut intact; interior offsets of large values sampled (all offsets of the last record in the thorough tier); known finding: MANIFEST zero-filled tail.", "4/C09"),
 "C10": ("fault_enumeration", "power-loss simulation: durable-image recorder fed by badger's persistence hook events (file bytes as of last sync, directory entries as of last directory sync), images frozen under the acknowledgement-log lock, verifier child opens each image; commit-prefix oracle",
         "SyncWrites workloads (plain, deletes, AES+GC); images frozen at the first/last/random occurrence of every hook-event class, at uniformly random events and after Close; each image must open, contain every commit acknowledged before the freeze as a commit-order prefix, equal that prefix applied in order, pass the structure validator and accept a new commit above every stored version.",
         "Power loss is simulated from hook events (minimal image: only explicitly synced data); bytes written after a file's last sync but before the hook ran may be credited; files the hooks do not report (LOCK, DISCARD) are copied as they are.", "4/C10"),
}

def hooks_commits():
    try:
        out = subprocess.check_output(["git", "-C", "/repo", "log", "--format=%H %s"], text=True)
        return [l.split()[0] for l in out.splitlines() if l.split(" ", 1)[1].startswith("verif:")]
    except Exception:
        return []

def main():
    props = [json.loads(l) for l in open(os.path.join(ROOT, "properties.jsonl"))]
    na_reasons = {}
    p = os.path.join(ROOT, "tools", "not_applicable.json")
    if os.path.exists(p):
        na_reasons = json.load(open(p))
    checks, na = [], []
    for pr in props:
        pid = pr["id"]
        if pid in CHECKS:
            cat, tech, text, note, ref = CHECKS[pid]
            checks.append({
                "property_id": pid,
                "quick_cmd": f"/verif/run.sh {pid} quick",
                "thorough_cmd": f"/verif/run.sh {pid} thorough",
                "evidence_file": f"/verif/evidence/{pid}.json",
                "replay_cmd_template": "cat {path}",
                "engine": "vcheck",
                "level_claimed": {"category": cat, "text": text, "design_ref": f"DESIGN.md section {ref}"},
                "level_note": note,
                "technique": tech,
            })
        else:
            na.append({"property_id": pid, "reason": na_reasons.get(pid, "check not built yet in this session (runtime-monitoring design exists in DESIGN.md section 4); not claimed until the monitor is built and validated")})
    m = {
        "version": 1,
        "setup_cmd": "cd /verif/h && GOFLAGS=-mod=mod GOPROXY=off GOSUMDB=off GOTOOLCHAIN=local go build -tags verif -o /verif/.bin/vcheck ./cmd/vcheck && GOFLAGS=-mod=mod GOPROXY=off GOSUMDB=off GOTOOLCHAIN=local go build -tags verif -race -o /verif/.bin/vcheck-race ./cmd/vcheck",
        "hooks": {
            "guard": "verif",
            "enable": "go build -tags verif (harness module /verif/h with replace github.com/dgraph-io/badger/v4 => /repo); hook package /repo/verifhook, exports in /repo/verif_export.go",
            "baseline_off_cmd": "cd /repo && GOFLAGS=-mod=mod GOPROXY=off GOSUMDB=off GOTOOLCHAIN=local go test -json -vet=off -count=1 -timeout 25m ./...",
            "source_commits": hooks_commits(),
            "add_only": True,
        },
        "engines": [
            {"name": "vcheck", "path": "/verif/h/cmd/vcheck", "serves_properties": sorted(CHECKS), "kind_free_text": "Go harness: runs real badger code (tag verif, race detector where relevant) under generated workloads with reference-model / invariant monitors"},
        ],
        "checks": checks,
        "not_applicable": na,
        "notes": "Technique family: runtime monitoring and sanitizers. See DESIGN.md. Known genuine defects are listed in known_findings.json.",
    }
    json.dump(m, open(os.path.join(ROOT, "MANIFEST.json"), "w"), indent=1)
    print("checks:", len(checks), "not_applicable:", len(na))

if __name__ == "__main__":
    main()
