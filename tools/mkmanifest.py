#!/usr/bin/env python3
"""Generates /verif/MANIFEST.json from the table below. Run after adding a check."""
import json, os, subprocess, sys

ROOT = os.path.dirname(os.path.dirname(os.path.abspath(__file__)))

# id -> (category, technique, level text, level note, design ref)
CHECKS = {
 "C20": ("exploration", "runtime monitor: reference-model comparison of real encoders on generated inputs",
         "Real y.KeyWithTs/ParseKey/ParseTs/CompareKeys/SameKey, header, ValueStruct and valuePointer code run on ~0.5M (quick) generated hostile inputs and compared with independent reference implementations; sampled, not exhaustive.",
         "Trusts the 20-line reference comparator and the PRNG-driven generator; universal quantifier over byte strings is sampled.", "4/C20"),
}

def hooks_commits():
    try:
        out = subprocess.check_output(["git", "-C", "/repo", "log", "--format=%H %s"], text=True)
        return [l.split()[0] for l in out.splitlines() if l.split(" ", 1)[1].startswith("verif:")]
    except Exception:
        return []

def main():
    props = [json.loads(l) for l in open(os.path.join(ROOT, "properties.jsonl"))]
    na_reasons = {}
    p = os.path.join(ROOT, "tools", "not_applicable.json")
    if os.path.exists(p):
        na_reasons = json.load(open(p))
    checks, na = [], []
    for pr in props:
        pid = pr["id"]
        if pid in CHECKS:
            cat, tech, text, note, ref = CHECKS[pid]
            checks.append({
                "property_id": pid,
                "quick_cmd": f"/verif/run.sh {pid} quick",
                "thorough_cmd": f"/verif/run.sh {pid} thorough",
                "evidence_file": f"/verif/evidence/{pid}.json",
                "replay_cmd_template": "cat {path}",
                "engine": "vcheck",
                "level_claimed": {"category": cat, "text": text, "design_ref": f"DESIGN.md section {ref}"},
                "level_note": note,
                "technique": tech,
            })
        else:
            na.append({"property_id": pid, "reason": na_reasons.get(pid, "check not built yet in this session (runtime-monitoring design exists in DESIGN.md section 4); not claimed until the monitor is built and validated")})
    m = {
        "version": 1,
        "setup_cmd": "cd /verif/h && GOFLAGS=-mod=mod GOPROXY=off GOSUMDB=off GOTOOLCHAIN=local go build -tags verif -o /verif/.bin/vcheck ./cmd/vcheck && GOFLAGS=-mod=mod GOPROXY=off GOSUMDB=off GOTOOLCHAIN=local go build -tags verif -race -o /verif/.bin/vcheck-race ./cmd/vcheck",
        "hooks": {
            "guard": "verif",
            "enable": "go build -tags verif (harness module /verif/h with replace github.com/dgraph-io/badger/v4 => /repo); hook package /repo/verifhook, exports in /repo/verif_export.go",
            "baseline_off_cmd": "cd /repo && GOFLAGS=-mod=mod GOPROXY=off GOSUMDB=off GOTOOLCHAIN=local go test -json -vet=off -count=1 -timeout 25m ./...",
            "source_commits": hooks_commits(),
            "add_only": True,
        },
        "engines": [
            {"name": "vcheck", "path": "/verif/h/cmd/vcheck", "serves_properties": sorted(CHECKS), "kind_free_text": "Go harness: runs real badger code (tag verif, race detector where relevant) under generated workloads with reference-model / invariant monitors"},
        ],
        "checks": checks,
        "not_applicable": na,
        "notes": "Technique family: runtime monitoring and sanitizers. See DESIGN.md. Known genuine defects are listed in known_findings.json.",
    }
    json.dump(m, open(os.path.join(ROOT, "MANIFEST.json"), "w"), indent=1)
    print("checks:", len(checks), "not_applicable:", len(na))

if __name__ == "__main__":
    main()
