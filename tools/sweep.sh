#!/bin/sh
# usage: tools/sweep.sh <tier> <seed>... ; runs every registered check at the given seeds from this tree
cd "$(dirname "$0")/.." || exit 2
TIER=$1; shift
# a frozen snapshot of /repo when started with: vp run --with-repo -- ./tools/sweep.sh ...
[ -n "$VP_RUN_REPO" ] && export VERIF_REPO="$VP_RUN_REPO"
for s in "$@"; do
  for id in $(jq -r '.checks[].property_id' MANIFEST.json); do
    st=$(date +%s)
    out=$(VERIF_SEED=$s ./run.sh $id $TIER 2>&1); rc=$?
    en=$(date +%s)
    echo "seed=$s $id rc=$rc $((en-st))s | $(echo "$out" | grep -a '^RESULT' | sed 's/RESULT property=[A-Z0-9]* //')"
    echo "$out" | grep -a -E '^VIOLATION|signature:|what:|^INCONCLUSIVE|HARNESS-FAILURE|BUILD-FAILED' | cut -c1-400 | head -12
  done
done
