#!/bin/sh
# usage: confirm_seeded.sh <worktree> <outdir>
# Confirms a seeded change: builds, demo fails with the patch and passes without, full suite passes with it.
export GOFLAGS=-mod=mod GOPROXY=off GOSUMDB=off GOTOOLCHAIN=local
WT="$1"; OUT="$2"; mkdir -p "$OUT"
cd "$WT" || exit 2
DEMO=$(find . -name 'zz_*_test.go' | head -1)
[ -n "$DEMO" ] || { echo "no demo"; exit 2; }
PKG=$(dirname "$DEMO")
TAGS=""
grep -q "go:build verif" "$DEMO" && TAGS="-tags verif"
cp patch.diff "$OUT/patch.diff"; cp "$DEMO" "$OUT/$(basename $DEMO)"
git diff --quiet -- . ':!patch.diff' && git apply patch.diff   # make sure the patch is applied
go build ./... > "$OUT/build.log" 2>&1; B=$?
go test $TAGS -vet=off -count=1 -timeout 10m -run 'TestZZ|TestSeeded' "$PKG" > "$OUT/demo_with_patch.log" 2>&1; W=$?
git apply -R patch.diff
go test $TAGS -vet=off -count=1 -timeout 10m -run 'TestZZ|TestSeeded' "$PKG" > "$OUT/demo_without_patch.log" 2>&1; WO=$?
git apply patch.diff
mv "$DEMO" /tmp/$(basename $WT)-demo.go.aside
go test -mod=mod -json -vet=off -count=1 -timeout 40m ./... > "$OUT/suite.json" 2> "$OUT/suite.err"
mv /tmp/$(basename $WT)-demo.go.aside "$DEMO"
python3 - "$OUT" $B $W $WO <<'PY'
import json,sys
out,b,w,wo=sys.argv[1],int(sys.argv[2]),int(sys.argv[3]),int(sys.argv[4])
res={}
for l in open(out+'/suite.json'):
    try: e=json.loads(l)
    except: continue
    if e.get('Test') and e.get('Action') in ('pass','fail','skip'):
        res[e['Package']+'::'+e['Test']]=e['Action']
sp=set(json.load(open('/root/.vp/BASELINE.json'))['stable_pass'])
missing=sorted(t for t in sp if res.get(t)!='pass')
r={'build_ok':b==0,'demo_fails_with_patch':w!=0,'demo_passes_without_patch':wo==0,'suite_stable_pass_total':len(sp),'suite_not_passing':missing}
json.dump(r,open(out+'/confirm.json','w'),indent=1); print(r)
PY
rm -f "$OUT/suite.json" "$OUT/suite.err"
