#!/bin/sh
# usage: confirm_suite.sh <worktree> <outdir> : re-runs only the full suite with the patch applied and updates confirm.json
export GOFLAGS=-mod=mod GOPROXY=off GOSUMDB=off GOTOOLCHAIN=local
WT="$1"; OUT="$2"
cd "$WT" || exit 2
DEMO=$(find . -name 'zz_*_test.go' | head -1)
mv "$DEMO" /tmp/$(basename $WT)-demo.go.aside
go test -mod=mod -json -vet=off -count=1 -timeout 40m ./... > "$OUT/suite.json" 2> "$OUT/suite.err"
mv /tmp/$(basename $WT)-demo.go.aside "$DEMO"
python3 - "$OUT" <<'PY'
import json,sys
out=sys.argv[1]
res={}
for l in open(out+'/suite.json'):
    try: e=json.loads(l)
    except: continue
    if e.get('Test') and e.get('Action') in ('pass','fail','skip'):
        res[e['Package']+'::'+e['Test']]=e['Action']
sp=set(json.load(open('/root/.vp/BASELINE.json'))['stable_pass'])
r=json.load(open(out+'/confirm.json'))
r['suite_not_passing']=sorted(t for t in sp if res.get(t)!='pass')
json.dump(r,open(out+'/confirm.json','w'),indent=1); print(out, len(r['suite_not_passing']))
PY
rm -f "$OUT/suite.json" "$OUT/suite.err"
