#!/bin/sh
# usage: tools/sweep_ids.sh <tier> <seed> <id>... ; runs the given checks once from this tree
cd "$(dirname "$0")/.." || exit 2
TIER=$1; S=$2; shift 2
[ -n "$VP_RUN_REPO" ] && export VERIF_REPO="$VP_RUN_REPO"
for id in "$@"; do
  st=$(date +%s)
  out=$(VERIF_SEED=$S ./run.sh $id $TIER 2>&1); rc=$?
  en=$(date +%s)
  echo "seed=$S $id rc=$rc $((en-st))s | $(echo "$out" | grep -a '^RESULT' | sed 's/RESULT property=[A-Z0-9]* //')"
  echo "$out" | grep -a -E '^VIOLATION|signature:|what:|^INCONCLUSIVE|HARNESS-FAILURE|BUILD-FAILED' | cut -c1-400 | head -12
done
