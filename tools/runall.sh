#!/bin/sh
# usage: tools/runall.sh [tier] ; runs every check registered in MANIFEST.json and prints a summary
TIER=${1:-quick}
cd /verif
for id in $(jq -r '.checks[].property_id' MANIFEST.json); do
  s=$(date +%s)
  out=$(./run.sh $id $TIER 2>&1); rc=$?
  e=$(date +%s)
  echo "$id rc=$rc $((e-s))s $(echo "$out" | grep -c '^VIOLATION') viol $(echo "$out" | grep -c '^KNOWN-FINDING') known $(echo "$out" | grep -c '^INCONCLUSIVE') inconcl | $(echo "$out" | grep '^RESULT' | sed 's/RESULT property=[A-Z0-9]* //')"
done
