// Package model is the executable MVCC reference model of badger's visible behaviour.
package model

import (
	"bytes"
	"sort"

	"verif/h/gen"
)

// Ver is one version of a key.
type Ver struct {
	Ts        uint64
	Del       bool
	Token     string // value = gen.Expand(Token, Len) unless Raw != nil
	Len       int
	Raw       []byte
	UserMeta  byte
	ExpiresAt uint64
	Discard   bool // discard-earlier-versions
	Merge     bool
	Txn       int // writer transaction id (0 if unknown)
}

// Value returns the value bytes.
func (v Ver) Value() []byte {
	if v.Del {
		return nil
	}
	if v.Raw != nil {
		return v.Raw
	}
	return gen.Expand(v.Token, v.Len)
}

// Dead reports deleted-or-expired at time now (unix seconds).
func (v Ver) Dead(now uint64) bool {
	return v.Del || (v.ExpiresAt != 0 && v.ExpiresAt <= now)
}

// DB maps user keys to versions sorted by Ts descending.
type DB struct {
	M map[string][]Ver
}

// New returns an empty model.
func New() *DB { return &DB{M: map[string][]Ver{}} }

// Clone deep-copies the model.
func (d *DB) Clone() *DB {
	n := New()
	for k, vs := range d.M {
		n.M[k] = append([]Ver(nil), vs...)
	}
	return n
}

// Put inserts a version (a version with the same Ts is replaced).
func (d *DB) Put(key string, v Ver) {
	vs := d.M[key]
	i := sort.Search(len(vs), func(i int) bool { return vs[i].Ts <= v.Ts })
	if i < len(vs) && vs[i].Ts == v.Ts {
		vs[i] = v
		return
	}
	vs = append(vs, Ver{})
	copy(vs[i+1:], vs[i:])
	vs[i] = v
	d.M[key] = vs
}

// Newest returns the newest version with Ts <= ts (whether or not it is dead).
func (d *DB) Newest(key string, ts uint64) (Ver, bool) {
	vs := d.M[key]
	i := sort.Search(len(vs), func(i int) bool { return vs[i].Ts <= ts })
	if i == len(vs) {
		return Ver{}, false
	}
	return vs[i], true
}

// Visible returns the live version a read at ts must see.
func (d *DB) Visible(key string, ts, now uint64) (Ver, bool) {
	v, ok := d.Newest(key, ts)
	if !ok || v.Dead(now) {
		return Ver{}, false
	}
	return v, true
}

// Keys returns all user keys sorted ascending.
func (d *DB) Keys() []string {
	out := make([]string, 0, len(d.M))
	for k := range d.M {
		out = append(out, k)
	}
	sort.Strings(out)
	return out
}

// MaxTs returns the largest version in the model.
func (d *DB) MaxTs() uint64 {
	var m uint64
	for _, vs := range d.M {
		if len(vs) > 0 && vs[0].Ts > m {
			m = vs[0].Ts
		}
	}
	return m
}

// IterOpts mirrors the iterator options that matter.
type IterOpts struct {
	Reverse     bool
	AllVersions bool
	Prefix      []byte
	SinceTs     uint64
	OnlyKey     []byte // NewKeyIterator(key): implies AllVersions and exact key match
}

// Item is one expected iterator result.
type Item struct {
	Key string
	Ver Ver
}

// Iter is the iterator reference: position at the first visible key >= seek (<= seek in reverse; nil
// seek = Rewind, which badger defines as Seek(Prefix)), then yield while the key carries the prefix.
// overlay holds the transaction's own pending writes (they appear with version readTs).
func (d *DB) Iter(o IterOpts, readTs uint64, overlay map[string]Ver, seek []byte, now uint64) []Item {
	prefix := o.Prefix
	if o.OnlyKey != nil {
		prefix = o.OnlyKey
		o.AllVersions = true
	}
	if len(seek) == 0 {
		seek = prefix
	}
	keyset := map[string]struct{}{}
	for k := range d.M {
		keyset[k] = struct{}{}
	}
	for k := range overlay {
		keyset[k] = struct{}{}
	}
	keys := make([]string, 0, len(keyset))
	for k := range keyset {
		keys = append(keys, k)
	}
	sort.Strings(keys)
	if o.Reverse {
		for i, j := 0, len(keys)-1; i < j; i, j = i+1, j-1 {
			keys[i], keys[j] = keys[j], keys[i]
		}
	}
	var out []Item
	for _, k := range keys {
		if len(seek) > 0 {
			c := bytes.Compare([]byte(k), seek)
			if (!o.Reverse && c < 0) || (o.Reverse && c > 0) {
				continue
			}
		}
		// versions of k visible to this iterator, newest first
		var vs []Ver
		ov, hasOv := overlay[k]
		if hasOv {
			ov.Ts = readTs
			vs = append(vs, ov)
		}
		for _, v := range d.M[k] {
			if v.Ts > readTs || (hasOv && v.Ts == readTs) {
				continue
			}
			vs = append(vs, v)
		}
		if o.SinceTs > 0 {
			tmp := vs[:0:0]
			for _, v := range vs {
				if v.Ts > o.SinceTs {
					tmp = append(tmp, v)
				}
			}
			vs = tmp
		}
		if len(vs) == 0 {
			continue
		}
		var items []Item
		if o.AllVersions {
			for _, v := range vs {
				items = append(items, Item{k, v})
			}
			if o.Reverse {
				for i, j := 0, len(items)-1; i < j; i, j = i+1, j-1 {
					items[i], items[j] = items[j], items[i]
				}
			}
		} else {
			if vs[0].Dead(now) {
				continue
			}
			items = append(items, Item{k, vs[0]})
		}
		// prefix boundary: iteration ends at the first yielded key outside the prefix
		if o.OnlyKey != nil {
			if k != string(o.OnlyKey) {
				return out
			}
		} else if len(prefix) > 0 && !bytes.HasPrefix([]byte(k), prefix) {
			return out
		}
		out = append(out, items...)
	}
	return out
}

// MustRetain is the retention lower bound of C13 for key k: the versions compaction may never have
// removed when every discard timestamp used so far was <= u and NumVersionsToKeep = keep (0 = infinite).
func (d *DB) MustRetain(k string, u uint64, keep int, now uint64) []Ver {
	var out []Ver
	n := 0
	stop := false
	for _, v := range d.M[k] {
		if v.Ts > u || v.Merge {
			out = append(out, v)
			continue
		}
		if stop {
			continue
		}
		n++
		if v.Dead(now) {
			// a delete/expired entry at or below the watermark may itself be dropped, and hides the rest
			stop = true
			continue
		}
		out = append(out, v)
		if v.Discard || (keep > 0 && n == keep) {
			stop = true
		}
	}
	return out
}
