module verif/h

go 1.23.0

toolchain go1.25.0

require (
	github.com/anishathalye/porcupine v1.3.0
	github.com/dgraph-io/badger/v4 v4.0.0
	github.com/dgraph-io/ristretto/v2 v2.2.0
	golang.org/x/sys v0.35.0
	google.golang.org/protobuf v1.36.7
)

require (
	github.com/cespare/xxhash/v2 v2.3.0 // indirect
	github.com/dustin/go-humanize v1.0.1 // indirect
	github.com/go-logr/logr v1.4.3 // indirect
	github.com/go-logr/stdr v1.2.2 // indirect
	github.com/google/flatbuffers v25.2.10+incompatible // indirect
	github.com/klauspost/compress v1.18.0 // indirect
	go.opentelemetry.io/auto/sdk v1.1.0 // indirect
	go.opentelemetry.io/otel v1.37.0 // indirect
	go.opentelemetry.io/otel/metric v1.37.0 // indirect
	go.opentelemetry.io/otel/trace v1.37.0 // indirect
)

replace github.com/dgraph-io/badger/v4 => /repo
