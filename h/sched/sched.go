// Package sched installs handlers on badger's verifhook points: seeded delays at schedule points,
// an online monitor of the oracle's in-flight commits, and event counters.
package sched

import (
	"fmt"
	"runtime"
	"sync"
	"sync/atomic"
	"time"

	"github.com/dgraph-io/badger/v4/verifhook"
)

// Config controls the delay injector.
type Config struct {
	Seed     int64
	Prob     float64            // probability of acting at a point (default)
	ProbBy   map[string]float64 // per-point override
	MaxSleep time.Duration      // upper bound of an injected sleep
	OnPoint  func(name string)  // optional extra callback (runs before the delay)
	OnEv     func(name string, a, b uint64)
	OnEvB    func(name string, a uint64, b []byte)
	OnFS     func(op, path string, off, n int64)
}

// Sched is an installed handler set.
type Sched struct {
	cfg Config
	n   atomic.Uint64

	mu        sync.Mutex
	points    map[string]int64
	delays    map[string]int64
	evs       map[string]int64
	inflight  map[uint64]struct{}
	oracleBad []string

	// ReadsOverlappingCommit counts readTs grants issued while at least one commit was in flight.
	ReadsOverlappingCommit atomic.Int64
	Grants                 atomic.Int64
}

func mix(x uint64) uint64 {
	x ^= x >> 33
	x *= 0xff51afd7ed558ccd
	x ^= x >> 33
	x *= 0xc4ceb9fe1a85ec53
	x ^= x >> 33
	return x
}

// installed tracks whether a handler set is in place; PointHook is an additional schedule-point
// callback (used by the driver to hold the flusher) consulted by whatever handler set is installed.
var installed atomic.Bool

// PointHook, when set, is called at every schedule point before the installed handler acts.
var PointHook atomic.Pointer[func(name string)]

// Installed reports whether Install was called without a later Uninstall.
func Installed() bool { return installed.Load() }

// Install installs the handlers (replacing any previous set).
func Install(cfg Config) *Sched {
	installed.Store(true)
	s := &Sched{cfg: cfg, points: map[string]int64{}, delays: map[string]int64{}, evs: map[string]int64{}, inflight: map[uint64]struct{}{}}
	verifhook.Set(&verifhook.Handlers{Point: s.point, Ev: s.ev, EvB: s.evb, FS: s.fs})
	return s
}

// Uninstall removes all handlers.
func Uninstall() { installed.Store(false); verifhook.Set(nil) }

func (s *Sched) point(name string) {
	if h := PointHook.Load(); h != nil {
		(*h)(name)
	}
	if s.cfg.OnPoint != nil {
		s.cfg.OnPoint(name)
	}
	s.mu.Lock()
	s.points[name]++
	s.mu.Unlock()
	p := s.cfg.Prob
	if q, ok := s.cfg.ProbBy[name]; ok {
		p = q
	}
	if p <= 0 {
		return
	}
	h := mix(uint64(s.cfg.Seed)*0x9e3779b97f4a7c15 + s.n.Add(1))
	if float64(h%1000000)/1000000 >= p {
		return
	}
	s.mu.Lock()
	s.delays[name]++
	s.mu.Unlock()
	switch (h >> 20) % 3 {
	case 0:
		runtime.Gosched()
	default:
		if s.cfg.MaxSleep > 0 {
			time.Sleep(time.Duration((h >> 24) % uint64(s.cfg.MaxSleep)))
		} else {
			runtime.Gosched()
		}
	}
}

func (s *Sched) ev(name string, a, b uint64) {
	s.mu.Lock()
	s.evs[name]++
	switch name {
	case "commit.begin":
		s.inflight[a] = struct{}{}
	case "commit.done":
		delete(s.inflight, a)
	case "readts.granted":
		s.Grants.Add(1)
		if len(s.inflight) > 0 {
			s.ReadsOverlappingCommit.Add(1)
		}
		for ts := range s.inflight {
			if ts <= a && len(s.oracleBad) < 10 {
				s.oracleBad = append(s.oracleBad, fmt.Sprintf("read timestamp %d granted while commit %d was still being applied", a, ts))
			}
		}
	}
	s.mu.Unlock()
	if s.cfg.OnEv != nil {
		s.cfg.OnEv(name, a, b)
	}
}

func (s *Sched) evb(name string, a uint64, b []byte) {
	s.mu.Lock()
	s.evs[name]++
	s.mu.Unlock()
	if s.cfg.OnEvB != nil {
		s.cfg.OnEvB(name, a, b)
	}
}

func (s *Sched) fs(op, path string, off, n int64) {
	s.mu.Lock()
	s.evs["fs."+op]++
	s.mu.Unlock()
	if s.cfg.OnFS != nil {
		s.cfg.OnFS(op, path, off, n)
	}
}

// OracleViolations returns what the in-flight commit monitor saw.
func (s *Sched) OracleViolations() []string {
	s.mu.Lock()
	defer s.mu.Unlock()
	return append([]string(nil), s.oracleBad...)
}

// Counts returns (points hit, delays injected, events) by name.
func (s *Sched) Counts() (map[string]int64, map[string]int64, map[string]int64) {
	s.mu.Lock()
	defer s.mu.Unlock()
	cp := func(m map[string]int64) map[string]int64 {
		o := map[string]int64{}
		for k, v := range m {
			o[k] = v
		}
		return o
	}
	return cp(s.points), cp(s.delays), cp(s.evs)
}
