// Package core holds the verdict / evidence / known-findings plumbing shared by all checks.
package core

import (
	"crypto/sha256"
	"encoding/hex"
	"encoding/json"
	"fmt"
	"math/rand"
	"os"
	"path/filepath"
	"sort"
	"strconv"
	"sync"
	"time"
)

// Root is the /verif directory.
func Root() string {
	if r := os.Getenv("VERIF_ROOT"); r != "" {
		return r
	}
	return "/verif"
}

// KnownFinding is one entry of known_findings.json.
type KnownFinding struct {
	Property  string `json:"property"`
	Status    string `json:"status"` // "known" or "fixed"
	Signature string `json:"signature"`
	What      string `json:"what"`
	Commit    string `json:"commit,omitempty"`
}

type knownFile struct {
	Findings []KnownFinding `json:"findings"`
}

// Ctx is one run of one check.
type Ctx struct {
	ID    string
	Tier  string
	Seed  int64
	Level string

	start time.Time
	mu    sync.Mutex

	unknown      int
	unknownSigs  map[string]int
	knownHits    map[string]int
	samples      []any
	counters     map[string]int64
	distinct     map[string]struct{}
	evals        int64
	rule         string
	assumptions  []string
	inconclusive []string
	known        []KnownFinding
	extra        map[string]any
	maxSamples   int
	collect      bool
	collected    []Collected
}

// New creates the context from the environment.
func New(id, tier, level string) *Ctx {
	seed := int64(1)
	if s := os.Getenv("VERIF_SEED"); s != "" {
		if v, err := strconv.ParseInt(s, 10, 64); err == nil {
			seed = v
		}
	}
	c := &Ctx{ID: id, Tier: tier, Seed: seed, Level: level, start: time.Now(),
		unknownSigs: map[string]int{}, knownHits: map[string]int{}, counters: map[string]int64{},
		distinct: map[string]struct{}{}, extra: map[string]any{}, maxSamples: 6}
	b, err := os.ReadFile(filepath.Join(Root(), "known_findings.json"))
	if err == nil {
		var kf knownFile
		if json.Unmarshal(b, &kf) == nil {
			c.known = kf.Findings
		}
	}
	return c
}

// Collected is a violation recorded by a collector context (used inside child processes; the parent
// re-raises it through its own context).
type Collected struct {
	Sig  string `json:"sig"`
	What string `json:"what"`
}

// NewCollector returns a context that only collects violations (no known-findings matching, no
// printing, no replay files, no evidence).
func NewCollector(id string) *Ctx {
	return &Ctx{ID: id, Tier: "quick", Seed: 1, collect: true, start: time.Now(),
		unknownSigs: map[string]int{}, knownHits: map[string]int{}, counters: map[string]int64{},
		distinct: map[string]struct{}{}, extra: map[string]any{}, maxSamples: 6}
}

// Collected returns what a collector context recorded.
func (c *Ctx) Collected() []Collected {
	c.mu.Lock()
	defer c.mu.Unlock()
	return append([]Collected(nil), c.collected...)
}

// Thorough reports the tier.
func (c *Ctx) Thorough() bool { return c.Tier == "thorough" }

// Pick returns q in the quick tier and t in the thorough tier.
func (c *Ctx) Pick(q, t int) int {
	if c.Thorough() {
		return t
	}
	return q
}

// Rand returns a PRNG derived from the run seed and a stream name.
func (c *Ctx) Rand(stream string) *rand.Rand {
	h := sha256.Sum256([]byte(fmt.Sprintf("%s|%d|%s", c.ID, c.Seed, stream)))
	var s int64
	for i := 0; i < 8; i++ {
		s = s<<8 | int64(h[i])
	}
	return rand.New(rand.NewSource(s))
}

// SubSeed derives an integer seed.
func (c *Ctx) SubSeed(stream string) int64 { return c.Rand(stream).Int63() }

// Rule sets the evidence rule text.
func (c *Ctx) Rule(s string) { c.rule = s }

// Assume records an assumption.
func (c *Ctx) Assume(s string) { c.assumptions = append(c.assumptions, s) }

// Eval counts executed cases.
func (c *Ctx) Eval(n int) { c.mu.Lock(); c.evals += int64(n); c.mu.Unlock() }

// Distinct records a distinct non-trivial case key.
func (c *Ctx) Distinct(key string) {
	c.mu.Lock()
	c.distinct[key] = struct{}{}
	c.mu.Unlock()
}

// DistinctN returns the number of distinct keys so far.
func (c *Ctx) DistinctN() int { c.mu.Lock(); defer c.mu.Unlock(); return len(c.distinct) }

// Count adds to a named monitor counter.
func (c *Ctx) Count(name string, n int64) { c.mu.Lock(); c.counters[name] += n; c.mu.Unlock() }

// Counter reads a counter.
func (c *Ctx) Counter(name string) int64 { c.mu.Lock(); defer c.mu.Unlock(); return c.counters[name] }

// Set stores an extra coverage key.
func (c *Ctx) Set(name string, v any) { c.mu.Lock(); c.extra[name] = v; c.mu.Unlock() }

// Sample keeps a few example cases.
func (c *Ctx) Sample(x any) {
	c.mu.Lock()
	if len(c.samples) < c.maxSamples {
		c.samples = append(c.samples, x)
	}
	c.mu.Unlock()
}

// Inconclusive records a reason why (part of) the run could not decide.
func (c *Ctx) Inconclusive(reason string) {
	c.mu.Lock()
	if len(c.inconclusive) < 20 {
		c.inconclusive = append(c.inconclusive, reason)
	}
	c.mu.Unlock()
	fmt.Printf("INCONCLUSIVE property=%s %s\n", c.ID, reason)
}

// Violation reports a violation with a signature (stable, seed independent).
func (c *Ctx) Violation(sig, what string, witness any) {
	c.mu.Lock()
	defer c.mu.Unlock()
	if c.collect {
		if len(c.collected) < 20 {
			c.collected = append(c.collected, Collected{Sig: sig, What: what})
		}
		return
	}
	for _, k := range c.known {
		if k.Property == c.ID && k.Status == "known" && k.Signature == sig {
			if c.knownHits[sig] == 0 {
				fmt.Printf("KNOWN-FINDING: property=%s %s [%s]\n", c.ID, k.What, sig)
			}
			c.knownHits[sig]++
			return
		}
	}
	c.unknown++
	c.unknownSigs[sig]++
	if c.unknownSigs[sig] > 1 {
		return
	}
	if os.Getenv("VERIF_NOREPLAY") != "" {
		fmt.Printf("VIOLATION property=%s replay=none\n  signature: %s\n  what: %s\n", c.ID, sig, what)
		return
	}
	dir := filepath.Join(Root(), "replay", c.ID)
	_ = os.MkdirAll(dir, 0o755)
	h := sha256.Sum256([]byte(sig))
	path := filepath.Join(dir, fmt.Sprintf("%s-seed%d.json", hex.EncodeToString(h[:6]), c.Seed))
	b, _ := json.MarshalIndent(map[string]any{"property": c.ID, "signature": sig, "what": what,
		"seed": c.Seed, "tier": c.Tier, "witness": witness}, "", " ")
	_ = os.WriteFile(path, b, 0o644)
	fmt.Printf("VIOLATION property=%s replay=%s\n", c.ID, path)
	fmt.Printf("  signature: %s\n  what: %s\n", sig, what)
}

// Violations returns the number of violations not covered by known findings.
func (c *Ctx) Violations() int { c.mu.Lock(); defer c.mu.Unlock(); return c.unknown }

// WorkDir returns a fresh scratch directory for this run.
func (c *Ctx) WorkDir() string {
	base := os.Getenv("VERIF_WORK")
	if base == "" {
		base = filepath.Join(Root(), ".work")
	}
	// remove scratch directories left behind by runs of this check whose process is gone
	if olds, _ := filepath.Glob(filepath.Join(base, c.ID+"-*")); len(olds) > 0 {
		for _, o := range olds {
			var pid int
			if _, err := fmt.Sscanf(filepath.Base(o), c.ID+"-%d", &pid); err == nil {
				if _, err := os.Stat(fmt.Sprintf("/proc/%d", pid)); err != nil {
					_ = os.RemoveAll(o)
				}
			}
		}
	}
	d := filepath.Join(base, fmt.Sprintf("%s-%d", c.ID, os.Getpid()))
	_ = os.RemoveAll(d)
	_ = os.MkdirAll(d, 0o755)
	return d
}

// Finish writes the evidence file and returns the process exit code.
func (c *Ctx) Finish() int {
	c.mu.Lock()
	defer c.mu.Unlock()
	verdict := "held-on-observed"
	if c.unknown > 0 {
		verdict = "violated"
	} else if len(c.inconclusive) > 0 {
		verdict = "inconclusive"
	}
	cov := map[string]any{
		"evaluations":         c.evals,
		"distinct_nontrivial": len(c.distinct),
		"rule":                c.rule,
		"samples":             c.samples,
		"verdict":             verdict,
		"counters":            c.counters,
	}
	if len(c.samples) == 0 {
		cov["samples"] = []any{}
	}
	if len(c.inconclusive) > 0 {
		cov["inconclusive_reasons"] = c.inconclusive
	}
	if len(c.knownHits) > 0 {
		cov["known_findings_hit"] = c.knownHits
	}
	if len(c.unknownSigs) > 0 {
		cov["violation_signatures"] = c.unknownSigs
	}
	// a few distinct keys for the reader
	var dk []string
	for k := range c.distinct {
		dk = append(dk, k)
	}
	sort.Strings(dk)
	if len(dk) > 40 {
		dk = dk[:40]
	}
	cov["distinct_keys_sample"] = dk
	for k, v := range c.extra {
		cov[k] = v
	}
	ev := map[string]any{
		"property_id": c.ID,
		"tier":        c.Tier,
		"seed":        c.Seed,
		"level":       c.Level,
		"coverage":    cov,
		"assumptions": c.assumptions,
		"wall_s":      time.Since(c.start).Seconds(),
		"violations":  c.unknown,
	}
	if c.assumptions == nil {
		ev["assumptions"] = []string{}
	}
	dir := filepath.Join(Root(), "evidence")
	_ = os.MkdirAll(dir, 0o755)
	b, _ := json.MarshalIndent(ev, "", " ")
	if err := os.WriteFile(filepath.Join(dir, c.ID+".json"), b, 0o644); err != nil {
		fmt.Printf("cannot write evidence: %v\n", err)
	}
	fmt.Printf("RESULT property=%s tier=%s seed=%d verdict=%s evaluations=%d distinct=%d violations=%d known=%d wall=%.1fs\n",
		c.ID, c.Tier, c.Seed, verdict, c.evals, len(c.distinct), c.unknown, len(c.knownHits),
		time.Since(c.start).Seconds())
	if c.unknown > 0 {
		return 1
	}
	return 0
}
