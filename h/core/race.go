package core

import (
	"fmt"
	"os"
	"path/filepath"
	"regexp"
	"strings"
)

// RaceReport is one de-duplicated data race report.
type RaceReport struct {
	Key   string // dedupe key: outermost frames of both stacks, line numbers stripped
	Count int
	Top   []string // innermost frames of both accesses
	Text  string
}

var lineNo = regexp.MustCompile(`:\d+( \+0x[0-9a-f]+)?$`)

// ParseRaceLogs reads the race detector logs of this process (GORACE log_path) so far.
func ParseRaceLogs() []RaceReport {
	base := os.Getenv("VERIF_RACELOG")
	if base == "" {
		return nil
	}
	files, _ := filepath.Glob(base + ".*")
	byKey := map[string]*RaceReport{}
	var order []string
	for _, f := range files {
		b, err := os.ReadFile(f)
		if err != nil {
			continue
		}
		blocks := strings.Split(string(b), "==================")
		for _, blk := range blocks {
			if !strings.Contains(blk, "WARNING: DATA RACE") {
				continue
			}
			// stacks: sections separated by blank lines; take the first two (the two accesses)
			secs := strings.Split(strings.TrimSpace(blk), "\n\n")
			var tops, outers []string
			for i, s := range secs {
				if i >= 2 {
					break
				}
				var fns []string
				for _, ln := range strings.Split(s, "\n") {
					ln = strings.TrimSpace(ln)
					if strings.HasPrefix(ln, "/") || ln == "" || strings.HasPrefix(ln, "WARNING") || strings.HasPrefix(ln, "Read at") ||
						strings.HasPrefix(ln, "Write at") || strings.HasPrefix(ln, "Previous") || strings.HasPrefix(ln, "Atomic") {
						continue
					}
					fns = append(fns, lineNo.ReplaceAllString(ln, ""))
				}
				if len(fns) > 0 {
					tops = append(tops, fns[0])
					outers = append(outers, fns[len(fns)-1])
				}
			}
			key := strings.Join(tops, " <-> ") + " || " + strings.Join(outers, " <-> ")
			if r, ok := byKey[key]; ok {
				r.Count++
				continue
			}
			txt := blk
			if len(txt) > 3000 {
				txt = txt[:3000]
			}
			byKey[key] = &RaceReport{Key: key, Count: 1, Top: tops, Text: txt}
			order = append(order, key)
		}
	}
	var out []RaceReport
	for _, k := range order {
		out = append(out, *byKey[k])
	}
	return out
}

// CheckRaces records race reports in the evidence. Reports whose text mentions any of the given
// substrings in a stack frame are violations with the given signature; others are diagnostic.
func (c *Ctx) CheckRaces(violatingFrames []string, sig, what string) {
	reps := ParseRaceLogs()
	var diag []map[string]any
	for _, r := range reps {
		viol := false
		for _, f := range violatingFrames {
			for _, t := range r.Top {
				if strings.Contains(t, f) {
					viol = true
				}
			}
		}
		if viol {
			c.Violation(sig+"|"+strings.Join(r.Top, "<->"), what+": "+strings.Join(r.Top, " <-> "), r.Text)
		}
		diag = append(diag, map[string]any{"frames": r.Top, "count": r.Count, "violation": viol})
	}
	c.Set("race_reports_distinct", len(reps))
	c.Set("race_reports", diag)
	c.Set("race_detector", os.Getenv("VERIF_RACELOG") != "")
	if os.Getenv("VERIF_RACELOG") == "" {
		fmt.Println("note: race detector log not configured (run through run.sh)")
	}
}
