package comp

import (
	"fmt"
	"math"
	"os"

	"github.com/dgraph-io/badger/v4/y"

	"verif/h/core"
	"verif/h/gen"
)

// C19 checks that bloom filters never hide an added key, at the filter level and at the table level.
func C19(c *core.Ctx) {
	c.Rule("filter level: key-hash sets of size 0..50k (random, adversarial: 0,1,2^32-1, equal halves, arithmetic progressions matching the probe delta) " +
		"x BloomFalsePositive ladder 1e-9..0.999 -> every added hash must satisfy MayContain; table level: tables built with the ladder, " +
		"DoesNotHave(hash(userKey)) must be false for every added key; distinct = (set class, fp, bitsPerKey) combinations")
	r := c.Rand("c19")
	fps := []float64{1e-9, 1e-6, 0.001, 0.01, 0.1, 0.3, 0.5, 0.7, 0.9, 0.99, 0.999}
	sizes := []int{0, 1, 2, 3, 7, 64, 1000, 50000}
	if !c.Thorough() {
		sizes = []int{0, 1, 2, 3, 7, 64, 1000, 20000}
	}
	classes := []string{"random", "boundary", "progression", "equalhalves", "dense"}
	rounds := c.Pick(2, 24)
	for round := 0; round < rounds; round++ {
		for _, fp := range fps {
			for _, n := range sizes {
				for _, cl := range classes {
					keys := make([]uint32, 0, n)
					for i := 0; i < n; i++ {
						var h uint32
						switch cl {
						case "random":
							h = r.Uint32()
						case "boundary":
							h = []uint32{0, 1, 2, math.MaxUint32, math.MaxUint32 - 1, 1 << 31, 1<<31 - 1, 1 << 17, 1 << 15}[i%9] + uint32(i/9)
						case "progression":
							// delta used by the filter is h>>17 | h<<15; make keys whose probes coincide a lot
							h = uint32(i) * 0x20001
						case "equalhalves":
							x := uint32(r.Intn(1 << 16))
							h = x<<16 | x
						default:
							h = uint32(i)
						}
						keys = append(keys, h)
					}
					bpk := y.BloomBitsPerKey(len(keys), fp)
					f := y.NewFilter(keys, bpk)
					c.Eval(1)
					for _, h := range keys {
						if !f.MayContain(h) {
							c.Violation("C19|filter|"+cl, fmt.Sprintf("MayContain(%d)=false for an added hash; n=%d fp=%v bitsPerKey=%d", h, n, fp, bpk),
								map[string]any{"class": cl, "n": n, "fp": fp, "bitsPerKey": bpk, "hash": h})
							break
						}
					}
					c.Distinct(fmt.Sprintf("%s|n%d|fp%v|bpk%d", cl, n, fp, bpk))
				}
			}
		}
	}
	// table level
	dir := c.WorkDir()
	defer os.RemoveAll(dir)
	var id uint64
	for i := 0; i < c.Pick(60, 1500); i++ {
		cfg := tblCfg{BlockSize: 4096, Bloom: fps[r.Intn(len(fps))], InMem: i%2 == 0}
		ents := genEntries(r, 1+r.Intn(300), 12, 20, false)
		id++
		t, err := buildTable(dir, id, cfg, ents)
		c.Eval(1)
		if err != nil {
			c.Violation("C19|table-build", fmt.Sprintf("%v", err), cfg.String())
			continue
		}
		for _, e := range ents {
			if t.DoesNotHave(y.Hash(y.ParseKey(e.Key))) {
				c.Violation("C19|table-bloom", fmt.Sprintf("DoesNotHave true for added key %x (fp=%v)", y.ParseKey(e.Key), cfg.Bloom), cfg.String())
				break
			}
		}
		// absent keys: only counted (false positives are allowed)
		for j := 0; j < 20; j++ {
			if !t.DoesNotHave(y.Hash(gen.Bytes(r, 20))) {
				c.Count("false_positives", 1)
			} else {
				c.Count("true_negatives", 1)
			}
		}
		_ = t.DecrRef()
		c.Distinct(fmt.Sprintf("table|fp%v|mem%v", cfg.Bloom, cfg.InMem))
		if i < 2 {
			c.Sample(map[string]any{"fp": cfg.Bloom, "entries": len(ents)})
		}
	}
	c.Assume("hash space sampled (adversarial classes + random), not all 2^32 hashes; DB-level Get/key-iterator paths are checked by the history engine on bloom-enabled tables")
}
