package comp

import (
	"errors"
	"fmt"
	"math"
	"os"
	"path/filepath"
	"time"

	badger "github.com/dgraph-io/badger/v4"
	"github.com/dgraph-io/badger/v4/y"

	"verif/h/core"
	"verif/h/gen"
)

// c19DB: the database level - Get and key iterators skip tables through their bloom filters. Several
// generations of equally shaped key sets, each flushed to tables (and partly compacted), separated by
// DropAll (table ids start again) or DropPrefix; plain and encrypted (the decrypted table index, bloom
// filter included, then lives in the index cache). Every key of the current generation must be found
// by Get and by a key iterator.
func c19DB(c *core.Ctx, work string, idx int, fp float64) {
	dir := filepath.Join(work, fmt.Sprintf("db%d", idx))
	_ = os.MkdirAll(dir, 0o755)
	defer os.RemoveAll(dir)
	o := badger.DefaultOptions(dir).WithLogger(nil)
	o.MemTableSize = 1 << 20
	o.NumCompactors = 0
	o.NumLevelZeroTables = 50
	o.NumLevelZeroTablesStall = 100
	o.BloomFalsePositive = fp
	o.ValueThreshold = 1 << 10
	o.MetricsEnabled = false
	o.BlockCacheSize = 8 << 20
	enc := idx%2 == 0
	if enc {
		o.EncryptionKey = []byte("0123456789abcdef0123456789abcdef")[:[]int{16, 24, 32}[idx%3]]
		o.IndexCacheSize = 16 << 20
	}
	db, err := badger.Open(o)
	if err != nil {
		c.Inconclusive("open: " + err.Error())
		return
	}
	defer db.Close()
	r := c.Rand(fmt.Sprintf("c19-db-%d", idx))
	n := 40 + r.Intn(200)
	for g := 0; g < 4; g++ {
		tables := 1 + r.Intn(3)
		for t := 0; t < tables; t++ {
			wb := db.NewWriteBatch()
			for i := 0; i < n; i++ {
				_ = wb.Set([]byte(fmt.Sprintf("g%d-t%d-key-%05d", g, t, i)), []byte(fmt.Sprintf("val-%d-%d-%05d", g, t, i)))
			}
			if err := wb.Flush(); err != nil {
				c.Inconclusive("write: " + err.Error())
				return
			}
			if _, err := db.VerifRotateMemtable(); err != nil || !db.VerifWaitFlushed(20*time.Second) {
				c.Inconclusive(fmt.Sprintf("flush: %v", err))
				return
			}
		}
		c.Eval(1)
		hidden, first := 0, ""
		err := db.View(func(txn *badger.Txn) error {
			for t := 0; t < tables; t++ {
				for i := 0; i < n; i++ {
					k := []byte(fmt.Sprintf("g%d-t%d-key-%05d", g, t, i))
					c.Count("db.keys_looked_up", 1)
					_, gerr := txn.Get(k)
					if errors.Is(gerr, badger.ErrKeyNotFound) {
						hidden++
						if first == "" {
							first = string(k) + " (Get)"
						}
						continue
					} else if gerr != nil {
						return gerr
					}
					if i%4 == 0 {
						it := txn.NewKeyIterator(k, badger.DefaultIteratorOptions)
						it.Rewind()
						if !it.Valid() {
							hidden++
							if first == "" {
								first = string(k) + " (key iterator)"
							}
						}
						it.Close()
					}
				}
			}
			return nil
		})
		wit := map[string]any{"generation": g, "tables": tables, "keys_per_table": n, "fp": fp, "encrypted": enc}
		if err != nil {
			c.Violation("C19|db|read-error", fmt.Sprintf("generation %d: %v", g, err), wit)
			return
		}
		if hidden > 0 {
			c.Violation("C19|db|hidden", fmt.Sprintf("generation %d: %d lookups of keys that are stored in flushed tables find nothing (first: %s)", g, hidden, first), wit)
			return
		}
		c.Distinct(fmt.Sprintf("db|enc=%v|fp=%v|gen=%d", enc, fp, g))
		if g%2 == 0 {
			if err := db.DropAll(); err != nil {
				c.Violation("C19|db|dropall-error", err.Error(), wit)
				return
			}
		} else if err := db.DropPrefix([]byte(fmt.Sprintf("g%d-", g))); err != nil {
			c.Violation("C19|db|dropprefix-error", err.Error(), wit)
			return
		}
	}
}

// C19 checks that bloom filters never hide an added key, at the filter level and at the table level.
func C19(c *core.Ctx) {
	c.Rule("filter level: key-hash sets of size 0..50k (random, adversarial: 0,1,2^32-1, equal halves, arithmetic progressions matching the probe delta) " +
		"x BloomFalsePositive ladder 1e-9..0.999 -> every added hash must satisfy MayContain; table level: tables built with the ladder, " +
		"DoesNotHave(hash(userKey)) must be false for every added key; distinct = (set class, fp, bitsPerKey) combinations")
	r := c.Rand("c19")
	fps := []float64{1e-9, 1e-6, 0.001, 0.01, 0.1, 0.3, 0.5, 0.7, 0.9, 0.99, 0.999}
	sizes := []int{0, 1, 2, 3, 7, 64, 1000, 50000}
	if !c.Thorough() {
		sizes = []int{0, 1, 2, 3, 7, 64, 1000, 20000}
	}
	classes := []string{"random", "boundary", "progression", "equalhalves", "dense"}
	rounds := c.Pick(2, 24)
	for round := 0; round < rounds; round++ {
		for _, fp := range fps {
			for _, n := range sizes {
				for _, cl := range classes {
					keys := make([]uint32, 0, n)
					for i := 0; i < n; i++ {
						var h uint32
						switch cl {
						case "random":
							h = r.Uint32()
						case "boundary":
							h = []uint32{0, 1, 2, math.MaxUint32, math.MaxUint32 - 1, 1 << 31, 1<<31 - 1, 1 << 17, 1 << 15}[i%9] + uint32(i/9)
						case "progression":
							// delta used by the filter is h>>17 | h<<15; make keys whose probes coincide a lot
							h = uint32(i) * 0x20001
						case "equalhalves":
							x := uint32(r.Intn(1 << 16))
							h = x<<16 | x
						default:
							h = uint32(i)
						}
						keys = append(keys, h)
					}
					bpk := y.BloomBitsPerKey(len(keys), fp)
					f := y.NewFilter(keys, bpk)
					c.Eval(1)
					for _, h := range keys {
						if !f.MayContain(h) {
							c.Violation("C19|filter|"+cl, fmt.Sprintf("MayContain(%d)=false for an added hash; n=%d fp=%v bitsPerKey=%d", h, n, fp, bpk),
								map[string]any{"class": cl, "n": n, "fp": fp, "bitsPerKey": bpk, "hash": h})
							break
						}
					}
					c.Distinct(fmt.Sprintf("%s|n%d|fp%v|bpk%d", cl, n, fp, bpk))
				}
			}
		}
	}
	// table level
	dir := c.WorkDir()
	defer os.RemoveAll(dir)
	var id uint64
	for i := 0; i < c.Pick(60, 1500); i++ {
		cfg := tblCfg{BlockSize: 4096, Bloom: fps[r.Intn(len(fps))], InMem: i%2 == 0}
		ents := genEntries(r, 1+r.Intn(300), 12, 20, false)
		id++
		t, err := buildTable(dir, id, cfg, ents)
		c.Eval(1)
		if err != nil {
			c.Violation("C19|table-build", fmt.Sprintf("%v", err), cfg.String())
			continue
		}
		for _, e := range ents {
			if t.DoesNotHave(y.Hash(y.ParseKey(e.Key))) {
				c.Violation("C19|table-bloom", fmt.Sprintf("DoesNotHave true for added key %x (fp=%v)", y.ParseKey(e.Key), cfg.Bloom), cfg.String())
				break
			}
		}
		// absent keys: only counted (false positives are allowed)
		for j := 0; j < 20; j++ {
			if !t.DoesNotHave(y.Hash(gen.Bytes(r, 20))) {
				c.Count("false_positives", 1)
			} else {
				c.Count("true_negatives", 1)
			}
		}
		_ = t.DecrRef()
		c.Distinct(fmt.Sprintf("table|fp%v|mem%v", cfg.Bloom, cfg.InMem))
		if i < 2 {
			c.Sample(map[string]any{"fp": cfg.Bloom, "entries": len(ents)})
		}
	}
	c.Rule("database level: 4 generations of equally shaped key sets, each flushed into 1-3 tables, separated by DropAll (table ids restart) or DropPrefix, plain and encrypted " +
		"(index cache), BloomFalsePositive from the ladder: every stored key must be found by Get and by a key iterator")
	for i := 0; i < c.Pick(6, 44); i++ {
		c19DB(c, dir, i, fps[(i*5+2)%len(fps)])
	}
	c.Assume("hash space sampled (adversarial classes + random), not all 2^32 hashes; DB-level Get/key-iterator paths are checked by the history engine on bloom-enabled tables")
}
