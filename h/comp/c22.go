package comp

import (
	"bytes"
	"fmt"
	"sort"
	"sync"
	"sync/atomic"
	"time"

	"github.com/anishathalye/porcupine"
	"github.com/dgraph-io/badger/v4/skl"
	"github.com/dgraph-io/badger/v4/y"

	"verif/h/core"
	"verif/h/gen"
)

type sklOp struct {
	Key   string // internal key
	Write bool
	Arg   string
}

var sklModel = porcupine.Model{
	Partition: func(history []porcupine.Operation) [][]porcupine.Operation {
		m := map[string][]porcupine.Operation{}
		for _, op := range history {
			k := op.Input.(sklOp).Key
			m[k] = append(m[k], op)
		}
		var keys []string
		for k := range m {
			keys = append(keys, k)
		}
		sort.Strings(keys)
		var out [][]porcupine.Operation
		for _, k := range keys {
			out = append(out, m[k])
		}
		return out
	},
	Init: func() interface{} { return "" },
	Step: func(st, in, out interface{}) (bool, interface{}) {
		e := in.(sklOp)
		if e.Write {
			return true, e.Arg
		}
		return out.(string) == st.(string), st
	},
	DescribeOperation: func(in, out interface{}) string {
		e := in.(sklOp)
		if e.Write {
			return fmt.Sprintf("put(%x,%s)", e.Key, e.Arg)
		}
		return fmt.Sprintf("get(%x)->%q", e.Key, out)
	},
}

// C22 checks the memtable skiplist sequentially against a sorted map and concurrently with a
// linearizability checker, iterator monitors and the race detector.
func C22(c *core.Ctx) {
	c.Rule("sequential: random Put sequences (overwrites, shared prefixes, several versions per key) vs a sorted map: Get (newest version <= asked), " +
		"forward/reverse iteration, Seek, SeekForPrev; concurrent (-race): 6-12 goroutines Put/Get on 4-16 internal keys with unique tokens, " +
		"history checked with porcupine per key (register model), scanning goroutines assert strictly increasing keys, no duplicates, " +
		"values that are tokens written to that key, and presence of every key whose Put returned before the scan started; " +
		"distinct = distinct (mode, goroutines, keys) configurations with a non-empty concurrent overlap")
	r := c.Rand("c22")
	// ---- sequential
	for i := 0; i < c.Pick(2000, 6000); i++ {
		s := skl.NewSkiplist(1 << 20)
		ref := map[string]KV{}
		users := gen.KeySet(r, 1+r.Intn(20), 8)
		nops := 1 + r.Intn(150)
		for j := 0; j < nops; j++ {
			k := y.KeyWithTs(users[r.Intn(len(users))], uint64(r.Intn(5)))
			v := y.ValueStruct{Value: []byte(gen.Token(i, j)), Meta: byte(r.Intn(3)), UserMeta: byte(j), ExpiresAt: uint64(r.Intn(2)) << 40}
			s.Put(k, v)
			ref[string(k)] = KV{Key: k, Val: v}
		}
		var sorted []KV
		for _, kv := range ref {
			sorted = append(sorted, kv)
		}
		sort.Slice(sorted, func(a, b int) bool { return y.CompareKeys(sorted[a].Key, sorted[b].Key) < 0 })
		c.Eval(1)
		info := map[string]any{"users": len(users), "ops": nops}
		// Get
		for _, u := range users {
			for v := uint64(0); v < 6; v++ {
				k := y.KeyWithTs(u, v)
				got := s.Get(k)
				idx := refSeek(sorted, k, false)
				if idx < len(sorted) && y.SameKey(sorted[idx].Key, k) {
					if !vsEqual(got, sorted[idx].Val) || got.Version != y.ParseTs(sorted[idx].Key) {
						c.Violation("C22|seq|get", fmt.Sprintf("Get(%x@%d) returned %q@%d want %q@%d", u, v, got.Value, got.Version, sorted[idx].Val.Value, y.ParseTs(sorted[idx].Key)), info)
					}
				} else if got.Value != nil || got.Meta != 0 {
					c.Violation("C22|seq|get-absent", fmt.Sprintf("Get(%x@%d) returned %q for an absent key", u, v, got.Value), info)
				}
			}
		}
		sk := seekersFor(r, sorted, 10)
		checkIter(c, "C22|seq|uni", func(rev bool) y.Iterator { return s.NewUniIterator(rev) }, sorted, sk, info)
		// bidirectional iterator: SeekForPrev / Prev
		it := s.NewIterator()
		for _, k := range sk {
			it.SeekForPrev(k)
			idx := refSeek(sorted, k, true)
			ok := (idx < 0 && !it.Valid()) || (idx >= 0 && it.Valid() && bytes.Equal(it.Key(), sorted[idx].Key))
			if !ok {
				c.Violation("C22|seq|seekforprev", "SeekForPrev landed wrong", info)
				break
			}
			if it.Valid() {
				it.Prev()
				ok = (idx-1 < 0 && !it.Valid()) || (idx-1 >= 0 && it.Valid() && bytes.Equal(it.Key(), sorted[idx-1].Key))
				if !ok {
					c.Violation("C22|seq|prev", "Prev after SeekForPrev wrong", info)
					break
				}
			}
		}
		it.Close()
		s.DecrRef()
		c.Distinct(fmt.Sprintf("seq|users%d", len(users)))
	}

	// ---- concurrent
	var clock atomic.Int64
	histories := c.Pick(600, 2500)
	var illegal, unknown int
	for h := 0; h < histories; h++ {
		nG := 6 + r.Intn(7)
		nK := 4 + r.Intn(13)
		users := gen.KeySet(r, nK, 6)
		keys := make([][]byte, nK)
		for i := range keys {
			keys[i] = y.KeyWithTs(users[i], uint64(1+r.Intn(3))) // one fixed version per user key: a register
		}
		// extra versions inserted concurrently so that neighbours change under readers
		s := skl.NewSkiplist(4 << 20)
		var mu sync.Mutex
		var ops []porcupine.Operation
		tokensOf := make([]map[string]struct{}, nK) // tokens ever written per key
		for i := range tokensOf {
			tokensOf[i] = map[string]struct{}{}
		}
		doneBefore := make([]atomic.Int64, nK) // logical time of first completed put per key (0=none)
		var wg sync.WaitGroup
		var overlap atomic.Int64
		var inflight atomic.Int64
		seeds := make([]int64, nG)
		for g := range seeds {
			seeds[g] = r.Int63()
		}
		scanErr := make(chan string, 16)
		for g := 0; g < nG; g++ {
			wg.Add(1)
			go func(g int) {
				defer wg.Done()
				rr := c.Rand(fmt.Sprintf("c22-%d-%d-%d", h, g, seeds[g]))
				var local []porcupine.Operation
				for j := 0; j < 25; j++ {
					ki := rr.Intn(nK)
					switch rr.Intn(10) {
					case 0, 1, 2, 3: // put
						tok := fmt.Sprintf("h%d.g%d.%d", h, g, j)
						mu.Lock()
						tokensOf[ki][tok] = struct{}{}
						mu.Unlock()
						if inflight.Add(1) > 1 {
							overlap.Add(1)
						}
						t0 := clock.Add(1)
						s.Put(keys[ki], y.ValueStruct{Value: []byte(tok), Meta: 1, UserMeta: byte(len(tok))})
						t1 := clock.Add(1)
						inflight.Add(-1)
						doneBefore[ki].CompareAndSwap(0, t1)
						local = append(local, porcupine.Operation{ClientId: g, Input: sklOp{Key: string(keys[ki]), Write: true, Arg: tok}, Call: t0, Output: "", Return: t1})
					case 4: // put of another version of a user key (changes neighbourhood, not a register key)
						s.Put(y.KeyWithTs(users[ki], uint64(10+rr.Intn(5))), y.ValueStruct{Value: []byte("other"), Meta: 2})
					case 5, 6, 7: // get
						if inflight.Add(1) > 1 {
							overlap.Add(1)
						}
						t0 := clock.Add(1)
						vs := s.Get(keys[ki])
						t1 := clock.Add(1)
						inflight.Add(-1)
						out := string(vs.Value)
						if vs.Value != nil && (vs.Meta != 1 || int(vs.UserMeta) != len(out) || vs.Version != y.ParseTs(keys[ki])) {
							select {
							case scanErr <- fmt.Sprintf("torn value: Get returned value %q meta %d usermeta %d version %d", out, vs.Meta, vs.UserMeta, vs.Version):
							default:
							}
						}
						local = append(local, porcupine.Operation{ClientId: g, Input: sklOp{Key: string(keys[ki])}, Call: t0, Output: out, Return: t1})
					default: // scan
						start := clock.Add(1)
						must := map[int]bool{}
						for i := range keys {
							if d := doneBefore[i].Load(); d != 0 && d < start {
								must[i] = true
							}
						}
						rev := rr.Intn(2) == 0
						it := s.NewUniIterator(rev)
						var prev []byte
						seen := map[string]bool{}
						for it.Rewind(); it.Valid(); it.Next() {
							k := append([]byte{}, it.Key()...)
							if prev != nil {
								cmp := y.CompareKeys(prev, k)
								if (!rev && cmp >= 0) || (rev && cmp <= 0) {
									select {
									case scanErr <- fmt.Sprintf("unsorted or duplicate keys in scan (rev=%v): %x then %x", rev, prev, k):
									default:
									}
								}
							}
							prev = k
							seen[string(k)] = true
							v := it.Value()
							for i := range keys {
								if bytes.Equal(keys[i], k) {
									mu.Lock()
									_, ok := tokensOf[i][string(v.Value)]
									mu.Unlock()
									if !ok || v.Meta != 1 || int(v.UserMeta) != len(v.Value) {
										select {
										case scanErr <- fmt.Sprintf("scan saw value %q (meta %d) that was never written to key %x", v.Value, v.Meta, k):
										default:
										}
									}
								}
							}
						}
						it.Close()
						for i := range must {
							if !seen[string(keys[i])] {
								select {
								case scanErr <- fmt.Sprintf("scan (rev=%v) missed key %x whose Put had returned before the scan started", rev, keys[i]):
								default:
								}
							}
						}
					}
				}
				mu.Lock()
				ops = append(ops, local...)
				mu.Unlock()
			}(g)
		}
		wg.Wait()
		close(scanErr)
		c.Eval(1)
		info := map[string]any{"history": h, "goroutines": nG, "keys": nK, "ops": len(ops)}
		for e := range scanErr {
			kind := "scan"
			if len(e) > 4 && e[:4] == "torn" {
				kind = "torn"
			}
			c.Violation("C22|conc|"+kind, e, info)
		}
		res, _ := porcupine.CheckOperationsVerbose(sklModel, ops, 60*time.Second)
		switch res {
		case porcupine.Illegal:
			illegal++
			c.Violation("C22|conc|linearizability", "Put/Get history on the skiplist is not linearizable", map[string]any{"info": info, "ops": describeOps(ops)})
		case porcupine.Unknown:
			unknown++
			c.Inconclusive("porcupine timed out on a skiplist history")
		}
		c.Count("conc_ops", int64(len(ops)))
		c.Count("conc_overlapping_ops", overlap.Load())
		if overlap.Load() > 0 {
			c.Distinct(fmt.Sprintf("conc|g%d|k%d", nG, nK))
		}
		if h < 2 {
			c.Sample(info)
		}
		s.DecrRef()
	}
	c.Set("porcupine_illegal", illegal)
	c.Set("porcupine_unknown", unknown)
	c.CheckRaces([]string{"/skl."}, "C22|race|skl", "data race reported inside package skl")
	c.Assume("interleavings are those the scheduler produced under 6-12-way contention; register keys use one version per user key so that each internal key is a register")
}

func describeOps(ops []porcupine.Operation) []string {
	var out []string
	for _, o := range ops {
		out = append(out, fmt.Sprintf("c%d [%d,%d] %s", o.ClientId, o.Call, o.Return, sklModel.DescribeOperation(o.Input, o.Output)))
	}
	if len(out) > 400 {
		out = out[:400]
	}
	return out
}
