package comp

import (
	"bytes"
	"encoding/hex"
	"fmt"
	"math"
	"math/rand"
	"sort"

	"github.com/dgraph-io/badger/v4/table"
	"github.com/dgraph-io/badger/v4/y"

	"verif/h/core"
	"verif/h/gen"
)

type mergeCase struct {
	inputs  [][]KV
	merged  []KV // reference, ascending
	rev     bool
	seekers [][]byte
}

func genMergeCase(r *rand.Rand) mergeCase {
	nIn := 1 + r.Intn(9)
	pool := gen.KeySet(r, 2+r.Intn(14), 6)
	var inputs [][]KV
	// a third of the cases draws versions from the whole 64-bit range (boundary ladder, small and
	// uniformly random values: versions of one key may be 2^63 or more apart)
	wide := r.Intn(3) == 0
	ver := func() uint64 {
		if wide {
			return gen.Version(r)
		}
		return uint64(r.Intn(4))
	}
	for i := 0; i < nIn; i++ {
		m := map[string]KV{}
		n := r.Intn(12)
		if r.Intn(5) == 0 {
			n = 0 // empty input
		}
		for j := 0; j < n; j++ {
			k := y.KeyWithTs(pool[r.Intn(len(pool))], ver())
			m[string(k)] = KV{Key: k, Val: y.ValueStruct{Value: []byte{byte(i)}, Meta: byte(j)}}
		}
		var in []KV
		for _, kv := range m {
			in = append(in, kv)
		}
		sort.Slice(in, func(a, b int) bool { return y.CompareKeys(in[a].Key, in[b].Key) < 0 })
		inputs = append(inputs, in)
	}
	// reference: earliest input wins
	seen := map[string]KV{}
	for i := len(inputs) - 1; i >= 0; i-- {
		for _, kv := range inputs[i] {
			seen[string(kv.Key)] = kv
		}
	}
	var merged []KV
	for _, kv := range seen {
		merged = append(merged, kv)
	}
	sort.Slice(merged, func(a, b int) bool { return y.CompareKeys(merged[a].Key, merged[b].Key) < 0 })
	mc := mergeCase{inputs: inputs, merged: merged, rev: r.Intn(2) == 0}
	for _, kv := range merged {
		uk, ts := y.ParseKey(kv.Key), y.ParseTs(kv.Key)
		mc.seekers = append(mc.seekers, kv.Key)
		if ts < math.MaxUint64 {
			mc.seekers = append(mc.seekers, y.KeyWithTs(uk, ts+1))
		}
		if ts > 0 {
			mc.seekers = append(mc.seekers, y.KeyWithTs(uk, ts-1))
		}
	}
	for i := 0; i < 6; i++ {
		mc.seekers = append(mc.seekers, y.KeyWithTs(gen.Key(r, 7), ver()))
	}
	return mc
}

func (mc mergeCase) build() y.Iterator {
	var its []y.Iterator
	for _, in := range mc.inputs {
		its = append(its, &sliceIter{items: in, rev: mc.rev})
	}
	return table.NewMergeIterator(its, mc.rev)
}

func (mc mergeCase) describe() map[string]any {
	var ins [][]string
	for _, in := range mc.inputs {
		var s []string
		for _, kv := range in {
			s = append(s, fmt.Sprintf("%s@%d", hex.EncodeToString(y.ParseKey(kv.Key)), y.ParseTs(kv.Key)))
		}
		ins = append(ins, s)
	}
	return map[string]any{"reverse": mc.rev, "inputs": ins}
}

// C21 compares table.MergeIterator with a reference merge (sorted union, earliest input wins).
func C21(c *core.Ctx) {
	c.Rule("random cases: 1-9 sorted inputs (some empty) over 2-15 hostile user keys x versions 0-3 with heavy duplication (a third of the cases: versions from the whole 64-bit range, boundary values included); " +
		"for each: full traversal after Rewind, Seek from every key and key+-1 version and random keys, then a random walk of " +
		"Seek/Next/Rewind compared with a reference cursor; distinct = (numInputs, direction, has-empty-input, has-duplicates) classes")
	r := c.Rand("c21")
	n := c.Pick(40000, 500000)
	for i := 0; i < n; i++ {
		mc := genMergeCase(r)
		c.Eval(1)
		it := mc.build()
		ref := mc.merged
		pos := func(idx int) int { // traversal order index -> merged index
			if mc.rev {
				return len(ref) - 1 - idx
			}
			return idx
		}
		fail := func(kind, what string) {
			c.Violation("C21|"+kind+fmt.Sprintf("|rev=%v", mc.rev), what, mc.describe())
		}
		same := func(idx int) bool { // iterator is at ref[idx] (or invalid when idx out of range)
			if idx < 0 || idx >= len(ref) {
				return !it.Valid()
			}
			if !it.Valid() {
				return false
			}
			v := it.Value()
			return bytes.Equal(it.Key(), ref[idx].Key) && bytes.Equal(v.Value, ref[idx].Val.Value) && v.Meta == ref[idx].Val.Meta
		}
		// full traversal
		it.Rewind()
		ok := true
		for j := 0; j <= len(ref); j++ {
			idx := pos(j)
			if j == len(ref) {
				idx = -1
			}
			if !same(idx) {
				fail("traversal", fmt.Sprintf("step %d of %d differs from the reference merge", j, len(ref)))
				ok = false
				break
			}
			if j < len(ref) {
				it.Next()
			}
		}
		// seeks
		for _, sk := range mc.seekers {
			if !ok {
				break
			}
			it.Seek(sk)
			idx := refSeek(ref, sk, mc.rev)
			if !same(idx) {
				fail("seek", fmt.Sprintf("Seek(%x@%d) landed wrong", y.ParseKey(sk), y.ParseTs(sk)))
				ok = false
				break
			}
			// continue two steps after seek
			for s := 0; s < 2 && it.Valid(); s++ {
				it.Next()
				if mc.rev {
					idx--
				} else {
					idx++
				}
				if !same(idx) {
					fail("seek-next", fmt.Sprintf("Next after Seek(%x@%d) wrong", y.ParseKey(sk), y.ParseTs(sk)))
					ok = false
					break
				}
			}
		}
		// random walk
		cur := -2 // unknown
		for s := 0; s < 30 && ok; s++ {
			switch op := r.Intn(3); {
			case op == 0 || cur == -2:
				it.Rewind()
				cur = pos(0)
				if len(ref) == 0 {
					cur = -1
				}
			case op == 1:
				sk := mc.seekers[r.Intn(len(mc.seekers))]
				it.Seek(sk)
				cur = refSeek(ref, sk, mc.rev)
			default:
				if cur < 0 || cur >= len(ref) {
					continue
				}
				it.Next()
				if mc.rev {
					cur--
				} else {
					cur++
				}
			}
			if !same(cur) {
				fail("walk", "random Seek/Next/Rewind walk diverged from the reference cursor")
				ok = false
			}
		}
		it.Close()
		empty, dup := false, false
		total := 0
		for _, in := range mc.inputs {
			if len(in) == 0 {
				empty = true
			}
			total += len(in)
		}
		dup = total > len(ref)
		c.Distinct(fmt.Sprintf("n%d|rev%v|empty%v|dup%v", len(mc.inputs), mc.rev, empty, dup))
		if i < 2 {
			c.Sample(mc.describe())
		}
	}
	c.Assume("each input is itself sorted and duplicate-free (the precondition of NewMergeIterator); zero inputs (returns nil) not exercised")
}
