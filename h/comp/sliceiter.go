package comp

import (
	"sort"

	"github.com/dgraph-io/badger/v4/y"
)

// KV is one internal key with a value.
type KV struct {
	Key []byte
	Val y.ValueStruct
}

// sliceIter is a reference y.Iterator over a sorted slice (ascending by CompareKeys).
type sliceIter struct {
	items []KV
	idx   int
	rev   bool
}

func (s *sliceIter) Rewind() {
	if s.rev {
		s.idx = len(s.items) - 1
	} else {
		s.idx = 0
	}
}
func (s *sliceIter) Next() {
	if s.rev {
		s.idx--
	} else {
		s.idx++
	}
}
func (s *sliceIter) Seek(key []byte) {
	if !s.rev {
		s.idx = sort.Search(len(s.items), func(i int) bool { return y.CompareKeys(s.items[i].Key, key) >= 0 })
		return
	}
	// last index with key <= target
	n := sort.Search(len(s.items), func(i int) bool { return y.CompareKeys(s.items[i].Key, key) > 0 })
	s.idx = n - 1
}
func (s *sliceIter) Valid() bool          { return s.idx >= 0 && s.idx < len(s.items) }
func (s *sliceIter) Key() []byte          { return s.items[s.idx].Key }
func (s *sliceIter) Value() y.ValueStruct { return s.items[s.idx].Val }
func (s *sliceIter) Close() error         { return nil }

// refSeek returns the index in a sorted (ascending) slice where a forward (first >= key) or reverse
// (last <= key) seek must land; -1 or len means invalid.
func refSeek(items []KV, key []byte, rev bool) int {
	if !rev {
		return sort.Search(len(items), func(i int) bool { return y.CompareKeys(items[i].Key, key) >= 0 })
	}
	return sort.Search(len(items), func(i int) bool { return y.CompareKeys(items[i].Key, key) > 0 }) - 1
}
