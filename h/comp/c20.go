package comp

import (
	"bytes"
	"encoding/hex"
	"fmt"
	"math"

	badger "github.com/dgraph-io/badger/v4"
	"github.com/dgraph-io/badger/v4/y"

	"verif/h/core"
	"verif/h/gen"
)

func sign(x int) int {
	switch {
	case x < 0:
		return -1
	case x > 0:
		return 1
	}
	return 0
}

func refCompare(k1 []byte, v1 uint64, k2 []byte, v2 uint64) int {
	if c := bytes.Compare(k1, k2); c != 0 {
		return c
	}
	switch { // version descending
	case v1 > v2:
		return -1
	case v1 < v2:
		return 1
	}
	return 0
}

// C20 checks key / header / value-struct / value-pointer encodings against references.
func C20(c *core.Ctx) {
	c.Rule("random (key,version) pairs from the hostile alphabet {00,'a','b',FF} plus random bytes, boundary versions; " +
		"header/value-struct/value-pointer fields from boundary ladders; distinct = distinct (keylen, version-class, relation) " +
		"classes for keys and distinct encoded-header lengths x field boundary classes")
	r := c.Rand("c20")
	n := c.Pick(3000000, 40000000)
	for i := 0; i < n; i++ {
		var k1, k2 []byte
		switch r.Intn(4) {
		case 0:
			k1, k2 = gen.Key(r, 12), gen.Key(r, 12)
		case 1: // k2 = k1 + suffix that looks like a version
			k1 = gen.Key(r, 10)
			k2 = y.KeyWithTs(k1, gen.Version(r))
		case 2:
			k1 = gen.Key(r, 10)
			k2 = append(append([]byte{}, k1...), gen.Alphabet[r.Intn(4)])
		default:
			k1, k2 = gen.Bytes(r, 1+r.Intn(20)), gen.Bytes(r, 1+r.Intn(20))
			if r.Intn(3) == 0 {
				k2 = append([]byte{}, k1...)
			}
		}
		v1, v2 := gen.Version(r), gen.Version(r)
		if r.Intn(4) == 0 {
			v2 = v1
		}
		// a third of the keys are handed over as slices with spare capacity followed by live bytes of
		// the caller (a scratch buffer, the key part of a record); every eighth pair encodes one such
		// buffer at two versions
		var guard1 []byte
		if i%3 == 0 {
			buf := append(append(make([]byte, 0, len(k1)+24), k1...), "0123456789abcdef"...)
			k1, guard1 = buf[:len(k1)], buf[len(k1):]
			if i%8 == 0 {
				k2 = k1
			}
		}
		e1, e2 := y.KeyWithTs(k1, v1), y.KeyWithTs(k2, v2)
		c.Eval(1)
		if guard1 != nil && string(guard1) != "0123456789abcdef" {
			c.Violation("C20|roundtrip|KeyWithTs-writes-into-callers-buffer", fmt.Sprintf("encoding key %x at version %d changed the bytes after the key in the caller's buffer to %x", k1, v1, guard1),
				map[string]any{"key": hex.EncodeToString(k1), "version": v1})
		}
		if !bytes.Equal(y.ParseKey(e1), k1) || y.ParseTs(e1) != v1 {
			c.Violation("C20|roundtrip|KeyWithTs/ParseKey/ParseTs", fmt.Sprintf("key %x ver %d decodes to %x / %d", k1, v1, y.ParseKey(e1), y.ParseTs(e1)),
				map[string]any{"key": hex.EncodeToString(k1), "version": v1})
		}
		want := refCompare(k1, v1, k2, v2)
		got := sign(y.CompareKeys(e1, e2))
		if got != want {
			c.Violation("C20|order|CompareKeys", fmt.Sprintf("CompareKeys(%x@%d, %x@%d)=%d want %d", k1, v1, k2, v2, got, want),
				map[string]any{"k1": hex.EncodeToString(k1), "v1": v1, "k2": hex.EncodeToString(k2), "v2": v2})
		}
		if y.SameKey(e1, e2) != bytes.Equal(k1, k2) {
			c.Violation("C20|samekey", fmt.Sprintf("SameKey(%x@%d,%x@%d)=%v", k1, v1, k2, v2, y.SameKey(e1, e2)),
				map[string]any{"k1": hex.EncodeToString(k1), "k2": hex.EncodeToString(k2)})
		}
		rel := "diff"
		if bytes.Equal(k1, k2) {
			rel = "same"
		} else if bytes.HasPrefix(k2, k1) || bytes.HasPrefix(k1, k2) {
			rel = "prefix"
		}
		c.Distinct(fmt.Sprintf("key|l%d|%s|v%d", len(k1), rel, vclass(v1)))
		if i < 3 {
			c.Sample(map[string]any{"k1": hex.EncodeToString(k1), "v1": v1, "k2": hex.EncodeToString(k2), "v2": v2, "cmp": got})
		}
	}

	// Headers.
	u32 := []uint32{0, 1, 127, 128, 16383, 16384, 65000, 65535, 65536, 1 << 21, 1<<28 - 1, 1 << 28, math.MaxUint32 - 1, math.MaxUint32}
	u64 := []uint64{0, 1, 127, 128, 1 << 14, 1<<35 - 1, 1 << 35, 1 << 56, 1<<63 - 1, 1 << 63, math.MaxUint64}
	metas := []byte{0, 1, 2, 4, 8, 64, 128, 0x7f, 0xff}
	hn := 0
	for _, kl := range u32 {
		for _, vl := range u32 {
			for _, ex := range u64 {
				for _, m := range metas {
					um := byte(hn * 37)
					encLen, d1, n1, d2, n2, err := badger.VerifHeaderRoundTrip(kl, vl, ex, m, um)
					c.Eval(1)
					hn++
					want := [5]uint64{uint64(kl), uint64(vl), ex, uint64(m), uint64(um)}
					if err != nil || d1 != want || d2 != want || n1 != encLen || n2 != encLen || encLen > badger.VerifMaxHeaderSize {
						c.Violation("C20|header|roundtrip", fmt.Sprintf("header %v: enc=%d dec1=%v/%d dec2=%v/%d err=%v", want, encLen, d1, n1, d2, n2, err), want)
					}
					c.Distinct(fmt.Sprintf("hdr|len%d", encLen))
				}
			}
		}
	}
	for i := 0; i < c.Pick(300000, 4000000); i++ {
		kl, vl, ex := uint32(r.Uint64()>>uint(r.Intn(33)+32)), uint32(r.Uint64()>>uint(r.Intn(33)+32)), r.Uint64()>>uint(r.Intn(64))
		m, um := byte(r.Intn(256)), byte(r.Intn(256))
		encLen, d1, n1, d2, n2, err := badger.VerifHeaderRoundTrip(kl, vl, ex, m, um)
		c.Eval(1)
		want := [5]uint64{uint64(kl), uint64(vl), ex, uint64(m), uint64(um)}
		if err != nil || d1 != want || d2 != want || n1 != encLen || n2 != encLen {
			c.Violation("C20|header|roundtrip", fmt.Sprintf("header %v: enc=%d dec1=%v/%d dec2=%v/%d err=%v", want, encLen, d1, n1, d2, n2, err), want)
		}
	}

	// Value structs.
	for i := 0; i < c.Pick(300000, 4000000); i++ {
		vs := y.ValueStruct{Meta: byte(r.Intn(256)), UserMeta: byte(r.Intn(256)), ExpiresAt: u64[r.Intn(len(u64))], Value: gen.Bytes(r, r.Intn(40))}
		if r.Intn(2) == 0 {
			vs.ExpiresAt = r.Uint64() >> uint(r.Intn(64))
		}
		buf := make([]byte, vs.EncodedSize())
		n := vs.Encode(buf)
		var bb bytes.Buffer
		vs.EncodeTo(&bb)
		var d y.ValueStruct
		d.Decode(buf)
		c.Eval(1)
		if n != vs.EncodedSize() || !bytes.Equal(bb.Bytes(), buf) || d.Meta != vs.Meta || d.UserMeta != vs.UserMeta || d.ExpiresAt != vs.ExpiresAt || !bytes.Equal(d.Value, vs.Value) {
			c.Violation("C20|valuestruct|roundtrip", fmt.Sprintf("%+v -> %+v (n=%d size=%d)", vs, d, n, vs.EncodedSize()), nil)
		}
		c.Distinct(fmt.Sprintf("vs|explen%d|vlen%d", len(buf)-2-len(vs.Value), min(len(vs.Value), 3)))
	}
	// Value pointers.
	for i := 0; i < c.Pick(300000, 4000000); i++ {
		p := badger.VerifVP{Fid: u32[r.Intn(len(u32))], Len: u32[r.Intn(len(u32))], Offset: u32[r.Intn(len(u32))]}
		if r.Intn(2) == 0 {
			p = badger.VerifVP{Fid: r.Uint32(), Len: r.Uint32(), Offset: r.Uint32()}
		}
		c.Eval(1)
		if q := badger.VerifVptrRoundTrip(p); q != p {
			c.Violation("C20|vptr|roundtrip", fmt.Sprintf("%+v -> %+v", p, q), p)
		}
	}
	c.Distinct("vptr|boundary")
	c.Assume("sampled, not all byte strings / versions; empty user keys excluded (the statement quantifies over non-empty keys)")
}

func vclass(v uint64) int {
	switch {
	case v == 0:
		return 0
	case v < 256:
		return 1
	case v < 1<<32:
		return 2
	case v < 1<<63:
		return 3
	case v == math.MaxUint64:
		return 5
	}
	return 4
}
