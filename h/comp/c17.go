package comp

import (
	"fmt"
	"os"
	"path/filepath"

	badger "github.com/dgraph-io/badger/v4"
	"github.com/dgraph-io/badger/v4/options"
	"github.com/dgraph-io/badger/v4/pb"

	"verif/h/core"
	"verif/h/gen"
	"verif/h/sched"
)

func mapsEqual(a, b map[uint64]badger.TableManifest) bool {
	if len(a) != len(b) {
		return false
	}
	for k, v := range a {
		if w, ok := b[k]; !ok || w != v {
			return false
		}
	}
	return true
}

func cloneMap(a map[uint64]badger.TableManifest) map[uint64]badger.TableManifest {
	out := make(map[uint64]badger.TableManifest, len(a))
	for k, v := range a {
		out[k] = v
	}
	return out
}

func replayFile(path string, opt badger.Options) (map[uint64]badger.TableManifest, int64, error) {
	fp, err := os.Open(path)
	if err != nil {
		return nil, 0, err
	}
	defer fp.Close()
	m, off, err := badger.ReplayManifestFile(fp, opt.ExternalMagicVersion, opt)
	if err != nil {
		return nil, 0, err
	}
	// cross-check Levels against Tables
	for id, tm := range m.Tables {
		if int(tm.Level) >= len(m.Levels) {
			return nil, 0, fmt.Errorf("table %d level %d missing from Levels", id, tm.Level)
		}
		if _, ok := m.Levels[tm.Level].Tables[id]; !ok {
			return nil, 0, fmt.Errorf("table %d not in Levels[%d]", id, tm.Level)
		}
	}
	n := 0
	for _, l := range m.Levels {
		n += len(l.Tables)
	}
	if n != len(m.Tables) {
		return nil, 0, fmt.Errorf("Levels hold %d ids, Tables %d", n, len(m.Tables))
	}
	return m.Tables, off, nil
}

type manSnap struct {
	op      string
	data    []byte
	missing bool
}

type boundary struct {
	off int64
	m   map[uint64]badger.TableManifest
}

// C17 monitors MANIFEST append / rewrite / replay.
func C17(c *core.Ctx) {
	c.Rule("random sequences of change sets (creates at levels 0-6 with key ids and compression, deletes of live and of unknown ids, mixed sets) " +
		"on a real manifest file with rewrite threshold 5-50 (every third run starts with a stale MANIFEST-REWRITE file left by a crashed rewrite); after every addChanges the in-memory map, a reference map and ReplayManifestFile must agree; " +
		"then every truncation offset since the last rewrite must replay to the map after the last complete set and return that set's end offset; " +
		"sampled cut copies are re-opened through the real open path, extended by one change set and replayed again; a flipped byte inside a complete set's payload or crc must produce an error; the MANIFEST as it is on disk at every persistence event inside addChanges (append, sync, rewrite-file sync, rename) must replay to the table set before or after that change set; distinct = (threshold, rewrites seen, unknown-delete used) classes")
	r := c.Rand("c17")
	dir := c.WorkDir()
	defer os.RemoveAll(dir)
	runs := c.Pick(40, 600)
	totalRewrites := 0
	for run := 0; run < runs; run++ {
		sub := filepath.Join(dir, fmt.Sprintf("m%d", run))
		_ = os.MkdirAll(sub, 0o755)
		opt := badger.DefaultOptions(sub).WithLogger(nil)
		thr := 5 + r.Intn(46)
		stale := run%3 == 1
		if stale {
			// a rewrite that died between writing its temporary file and the rename leaves the
			// temporary file behind; later rewrites must not be affected by its contents
			_ = os.WriteFile(filepath.Join(sub, "MANIFEST-REWRITE"), gen.Bytes(r, 300+r.Intn(6000)), 0o644)
			c.Count("stale_rewrite_files_planted", 1)
		}
		mf, _, err := badger.VerifOpenManifest(sub, thr, opt)
		if err != nil {
			c.Inconclusive("open manifest: " + err.Error())
			continue
		}
		path := filepath.Join(sub, badger.ManifestFilename)
		ref := map[uint64]badger.TableManifest{}
		bounds := []boundary{{8, cloneMap(ref)}, {16, cloneMap(ref)}} // a fresh MANIFEST holds the magic and one empty change set
		nextID := uint64(1)
		rewrites, unknownDel := 0, false
		nsets := 20 + r.Intn(120)
		info := map[string]any{"run": run, "threshold": thr, "sets": nsets}
		bad := false
		lastCreations := 0
		prevRef := cloneMap(ref)
		for s := 0; s < nsets && !bad; s++ {
			var ch []*pb.ManifestChange
			n := 1 + r.Intn(6)
			usedDel := map[uint64]bool{}
			for i := 0; i < n; i++ {
				switch {
				case len(ref) == 0 || r.Intn(10) < 5:
					tm := badger.TableManifest{Level: uint8(r.Intn(7)), KeyID: uint64(r.Intn(4)), Compression: options.CompressionType(r.Intn(3))}
					ch = append(ch, &pb.ManifestChange{Id: nextID, Op: pb.ManifestChange_CREATE, Level: uint32(tm.Level), KeyId: tm.KeyID,
						EncryptionAlgo: pb.EncryptionAlgo_aes, Compression: uint32(tm.Compression)})
					ref[nextID] = tm
					nextID++
				case r.Intn(12) == 0:
					id := nextID + 1000 + uint64(r.Intn(5))
					ch = append(ch, &pb.ManifestChange{Id: id, Op: pb.ManifestChange_DELETE})
					unknownDel = true
				default:
					for id := range ref {
						if !usedDel[id] {
							usedDel[id] = true
							ch = append(ch, &pb.ManifestChange{Id: id, Op: pb.ManifestChange_DELETE})
							delete(ref, id)
							break
						}
					}
				}
			}
			// crash snapshots: what the MANIFEST looks like on disk at every persistence event inside
			// this addChanges (append, sync, rewrite file sync, rename ...); a process dying there must
			// find either the table set from before this change set or the one after it
			before := prevRef
			var snaps []manSnap
			sched.Install(sched.Config{OnFS: func(op, fpath string, off, n int64) {
				b, err := os.ReadFile(path)
				snaps = append(snaps, manSnap{op: op + " " + filepath.Base(fpath), data: b, missing: err != nil})
			}})
			err := mf.AddChanges(ch)
			sched.Uninstall()
			for _, sn := range snaps {
				c.Count("crash_snapshots", 1)
				var got map[uint64]badger.TableManifest
				if sn.missing {
					got = map[uint64]badger.TableManifest{} // Open would start an empty database
				} else {
					cdir := filepath.Join(sub, "C")
					_ = os.MkdirAll(cdir, 0o755)
					cp := filepath.Join(cdir, badger.ManifestFilename)
					_ = os.WriteFile(cp, sn.data, 0o644)
					g, _, rerr := replayFile(cp, opt)
					if rerr != nil {
						c.Violation("C17|crash-snapshot|replay-error", fmt.Sprintf("MANIFEST as found right after %q does not replay: %v", sn.op, rerr), info)
						bad = true
						break
					}
					got = g
				}
				if !mapsEqual(got, before) && !mapsEqual(got, ref) {
					c.Violation("C17|crash-snapshot|neither-before-nor-after", fmt.Sprintf("MANIFEST as found right after %q (missing=%v) yields %d tables: neither the %d tables before this change set nor the %d after it", sn.op, sn.missing, len(got), len(before), len(ref)), info)
					bad = true
					break
				}
			}
			prevRef = cloneMap(ref)
			if err != nil {
				c.Violation("C17|addchanges", "addChanges failed on a valid change set: "+err.Error(), info)
				bad = true
				break
			}
			c.Eval(1)
			snap, creations, _ := mf.Snapshot()
			st, _ := os.Stat(path)
			if creations < lastCreations || (len(bounds) > 0 && st.Size() < bounds[len(bounds)-1].off) {
				rewrites++
				bounds = []boundary{{8, map[uint64]badger.TableManifest{}}}
			}
			lastCreations = creations
			bounds = append(bounds, boundary{st.Size(), cloneMap(ref)})
			if !mapsEqual(snap, ref) {
				c.Violation("C17|inmemory", fmt.Sprintf("in-memory manifest differs from the reference after set %d", s), info)
				bad = true
			}
			got, off, err := replayFile(path, opt)
			if err != nil || !mapsEqual(got, ref) || off != st.Size() {
				c.Violation("C17|replay", fmt.Sprintf("replay after set %d: err=%v equal=%v offset=%d size=%d", s, err, err == nil && mapsEqual(got, ref), off, st.Size()), info)
				bad = true
			}
		}
		totalRewrites += rewrites
		// truncation sweep over the current file
		if !bad {
			full, _ := os.ReadFile(path)
			tmp := filepath.Join(sub, "T")
			_ = os.MkdirAll(tmp, 0o755)
			tpath := filepath.Join(tmp, badger.ManifestFilename)
			start := 8
			if len(full) > 3000 && !c.Thorough() {
				start = len(full) - 3000
			}
			for t := start; t <= len(full) && !bad; t++ {
				_ = os.WriteFile(tpath, full[:t], 0o644)
				// expected boundary
				var want boundary
				for _, b := range bounds {
					if b.off <= int64(t) {
						want = b
					}
				}
				got, off, err := replayFile(tpath, opt)
				c.Count("truncation_offsets", 1)
				if err != nil || !mapsEqual(got, want.m) || off != want.off {
					c.Violation("C17|truncated", fmt.Sprintf("file cut at %d of %d: err=%v offset=%d want %d mapEqual=%v", t, len(full), err, off, want.off, err == nil && mapsEqual(got, want.m)), info)
					bad = true
				}
			}
			// torn tail, then life goes on: open the real manifest file on a copy cut at a sampled
			// offset (the open path truncates the torn tail), append one more change set, close;
			// the file must then replay to the state before the cut plus that change set
			for k := 0; k < 6 && !bad && len(full) > 16; k++ {
				t := start + r.Intn(len(full)-start+1)
				var want boundary
				for _, b := range bounds {
					if b.off <= int64(t) {
						want = b
					}
				}
				cdir := filepath.Join(sub, fmt.Sprintf("TT%d", k))
				_ = os.MkdirAll(cdir, 0o755)
				_ = os.WriteFile(filepath.Join(cdir, badger.ManifestFilename), full[:t], 0o644)
				mf2, _, err := badger.VerifOpenManifest(cdir, thr, opt)
				if err != nil {
					c.Violation("C17|torn-then-append|open", fmt.Sprintf("file cut at %d of %d does not open: %v", t, len(full), err), info)
					bad = true
					break
				}
				exp := cloneMap(want.m)
				newID := nextID + 5000 + uint64(k)
				exp[newID] = badger.TableManifest{Level: 3, KeyID: 1, Compression: options.Snappy}
				err = mf2.AddChanges([]*pb.ManifestChange{{Id: newID, Op: pb.ManifestChange_CREATE, Level: 3, KeyId: 1, EncryptionAlgo: pb.EncryptionAlgo_aes, Compression: uint32(options.Snappy)}})
				_ = mf2.Close()
				c.Count("torn_then_append_cases", 1)
				if err != nil {
					c.Violation("C17|torn-then-append|addchanges", err.Error(), info)
					bad = true
					break
				}
				got, off, err := replayFile(filepath.Join(cdir, badger.ManifestFilename), opt)
				st, _ := os.Stat(filepath.Join(cdir, badger.ManifestFilename))
				if err != nil || !mapsEqual(got, exp) || off != st.Size() {
					c.Violation("C17|torn-then-append|replay", fmt.Sprintf("file cut at %d (torn tail of %d bytes), re-opened, one change set appended: replay err=%v mapEqual=%v offset=%d size=%d", t, int64(t)-want.off, err, err == nil && mapsEqual(got, exp), off, st.Size()), info)
					bad = true
				}
			}
			// corruption inside complete sets: payload or crc bytes
			for k := 0; k < 40 && !bad && len(bounds) > 1; k++ {
				bi := 1 + r.Intn(len(bounds)-1)
				lo, hi := bounds[bi-1].off+4, bounds[bi].off // skip the 4 length bytes
				if hi-lo <= 0 {
					continue
				}
				p := lo + int64(r.Intn(int(hi-lo)))
				mut := append([]byte{}, full...)
				mut[p] ^= byte(1 << uint(r.Intn(8)))
				_ = os.WriteFile(tpath, mut, 0o644)
				got, _, err := replayFile(tpath, opt)
				c.Count("corruptions", 1)
				if err == nil {
					c.Violation("C17|corrupt-applied", fmt.Sprintf("flipped byte %d inside a complete change set: replay returned no error (map equal to final=%v)", p, mapsEqual(got, ref)), info)
					bad = true
				}
			}
		}
		_ = mf.Close()
		_ = os.RemoveAll(sub)
		c.Distinct(fmt.Sprintf("thr%d|rw%d|unk%v|stale-rewrite-file=%v", thr/10, min(rewrites, 3), unknownDel, stale))
		if run < 2 {
			info["rewrites"] = rewrites
			c.Sample(info)
		}
	}
	c.Set("rewrites_observed", totalRewrites)
	if totalRewrites == 0 {
		c.Inconclusive("no automatic MANIFEST rewrite was observed")
	}
	c.Assume("duplicate CREATE of a live id (a caller bug that addChanges rejects) is not generated; length-field flips are excluded from the corruption oracle because a longer length is indistinguishable from a torn tail")
}
