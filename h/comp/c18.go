package comp

import (
	"bytes"
	"crypto/rand"
	"fmt"
	mrand "math/rand"
	"os"
	"path/filepath"
	"sort"

	"github.com/dgraph-io/badger/v4/fb"
	"github.com/dgraph-io/badger/v4/options"
	"github.com/dgraph-io/badger/v4/pb"
	"github.com/dgraph-io/badger/v4/table"
	"github.com/dgraph-io/badger/v4/y"

	"github.com/dgraph-io/ristretto/v2"

	"verif/h/core"
	"verif/h/gen"
)

var (
	sharedIndexCache *ristretto.Cache[uint64, *fb.TableIndex]
	sharedBlockCache *ristretto.Cache[[]byte, *table.Block]
)

func caches() {
	if sharedIndexCache != nil {
		return
	}
	var err error
	sharedIndexCache, err = ristretto.NewCache(&ristretto.Config[uint64, *fb.TableIndex]{NumCounters: 1000, MaxCost: 64 << 20, BufferItems: 64})
	if err != nil {
		panic(err)
	}
	sharedBlockCache, err = ristretto.NewCache(&ristretto.Config[[]byte, *table.Block]{NumCounters: 10000, MaxCost: 64 << 20, BufferItems: 64, OnExit: table.BlockEvictHandler})
	if err != nil {
		panic(err)
	}
}

type tblCfg struct {
	BlockSize   int
	Compression options.CompressionType
	KeyLen      int // encryption key length, 0 = none
	Bloom       float64
	Chk         options.ChecksumVerificationMode
	InMem       bool
	BlockCache  bool
}

func (t tblCfg) String() string {
	return fmt.Sprintf("bs%d|c%d|enc%d|bloom%v|chk%d|mem%v|bc%v", t.BlockSize, t.Compression, t.KeyLen, t.Bloom, t.Chk, t.InMem, t.BlockCache)
}

func (t tblCfg) options() table.Options {
	o := table.Options{
		BlockSize:            t.BlockSize,
		Compression:          t.Compression,
		BloomFalsePositive:   t.Bloom,
		ChkMode:              t.Chk,
		TableSize:            64 << 20,
		ZSTDCompressionLevel: 1,
	}
	caches()
	o.IndexCache = sharedIndexCache
	if t.BlockCache {
		o.BlockCache = sharedBlockCache
	}
	if t.KeyLen > 0 {
		k := make([]byte, t.KeyLen)
		_, _ = rand.Read(k)
		o.DataKey = &pb.DataKey{KeyId: 7, Data: k}
	}
	return o
}

// genEntries returns strictly increasing internal keys with values.
func genEntries(r *mrand.Rand, nKeys, maxKeyLen, maxVal int, bigKeys bool) []KV {
	var users [][]byte
	if bigKeys {
		// long keys sharing long prefixes (overlap > 64KiB is impossible; up to the 65000 limit)
		base := gen.Bytes(r, 65000)
		m := map[string]struct{}{}
		for len(m) < nKeys {
			l := 64000 + r.Intn(1001) // up to the 65000-byte limit
			k := append([]byte{}, base[:l]...)
			k[len(k)-1-r.Intn(8)] = byte(r.Intn(256))
			m[string(k)] = struct{}{}
		}
		for k := range m {
			users = append(users, []byte(k))
		}
		sort.Slice(users, func(i, j int) bool { return bytes.Compare(users[i], users[j]) < 0 })
	} else {
		users = gen.KeySet(r, nKeys, maxKeyLen)
	}
	var out []KV
	for _, u := range users {
		nv := 1 + r.Intn(3)
		vers := map[uint64]struct{}{}
		for len(vers) < nv {
			vers[uint64(r.Intn(50))] = struct{}{}
		}
		var vs []uint64
		for v := range vers {
			vs = append(vs, v)
		}
		sort.Slice(vs, func(i, j int) bool { return vs[i] > vs[j] })
		for _, v := range vs {
			vl := r.Intn(maxVal + 1)
			if r.Intn(4) == 0 {
				vl = 0
			}
			out = append(out, KV{Key: y.KeyWithTs(u, v), Val: y.ValueStruct{
				Value: gen.Bytes(r, vl), Meta: byte(r.Intn(4)), UserMeta: byte(r.Intn(256)), ExpiresAt: uint64(r.Intn(3)) * 1e9}})
		}
	}
	return out
}

func buildTable(dir string, id uint64, cfg tblCfg, ents []KV) (*table.Table, error) {
	opts := cfg.options()
	b := table.NewTableBuilder(opts)
	defer b.Close()
	for _, e := range ents {
		// compaction adds the entries it keeps but considers stale (delete markers, versions below a
		// discard-earlier marker) through AddStaleKey: same table contents, plus stale-size accounting
		if len(e.Key) > 8 && (int(e.Key[0])+int(e.Key[len(e.Key)-9])+len(e.Key))%5 == 0 {
			b.AddStaleKey(e.Key, e.Val, 0)
		} else {
			b.Add(e.Key, e.Val, 0)
		}
	}
	if cfg.InMem {
		return table.OpenInMemoryTable(b.Finish(), id, &opts)
	}
	return table.CreateTable(filepath.Join(dir, table.IDToFilename(id)), b)
}

func vsEqual(a, b y.ValueStruct) bool {
	return a.Meta == b.Meta && a.UserMeta == b.UserMeta && a.ExpiresAt == b.ExpiresAt && bytes.Equal(a.Value, b.Value)
}

// checkIter compares an iterator (forward or reverse) over ref with traversal and seeks.
func checkIter(c *core.Ctx, sigPrefix string, mk func(rev bool) y.Iterator, ref []KV, seekers [][]byte, info any) bool {
	for _, rev := range []bool{false, true} {
		it := mk(rev)
		at := func(idx int) bool {
			if idx < 0 || idx >= len(ref) {
				return !it.Valid()
			}
			return it.Valid() && bytes.Equal(it.Key(), ref[idx].Key) && vsEqual(it.Value(), ref[idx].Val)
		}
		step := 1
		idx := 0
		if rev {
			step, idx = -1, len(ref)-1
		}
		it.Rewind()
		for j := 0; j <= len(ref); j++ {
			if !at(idx) {
				c.Violation(fmt.Sprintf("%s|traversal|rev=%v", sigPrefix, rev), fmt.Sprintf("entry %d of %d differs from input", j, len(ref)), info)
				it.Close()
				return false
			}
			if it.Valid() {
				it.Next()
			}
			idx += step
		}
		for _, sk := range seekers {
			it.Seek(sk)
			idx := refSeek(ref, sk, rev)
			if !at(idx) {
				c.Violation(fmt.Sprintf("%s|seek|rev=%v", sigPrefix, rev), fmt.Sprintf("Seek(len %d key @%d) landed wrong (want index %d of %d)", len(sk)-8, y.ParseTs(sk), idx, len(ref)), info)
				it.Close()
				return false
			}
			if it.Valid() {
				it.Next()
				if !at(idx + step) {
					c.Violation(fmt.Sprintf("%s|seek-next|rev=%v", sigPrefix, rev), "Next after Seek wrong", info)
					it.Close()
					return false
				}
			}
		}
		it.Close()
	}
	return true
}

func seekersFor(r *mrand.Rand, ref []KV, max int) [][]byte {
	var out [][]byte
	idxs := r.Perm(len(ref))
	if len(idxs) > max {
		idxs = idxs[:max]
	}
	for _, i := range idxs {
		uk, ts := y.ParseKey(ref[i].Key), y.ParseTs(ref[i].Key)
		out = append(out, ref[i].Key, y.KeyWithTs(uk, ts+1))
		if ts > 0 {
			out = append(out, y.KeyWithTs(uk, ts-1))
		}
		out = append(out, y.KeyWithTs(append(append([]byte{}, uk...), 0), ts), y.KeyWithTs(uk, 0), y.KeyWithTs(uk, ^uint64(0)))
	}
	for i := 0; i < 8; i++ {
		out = append(out, y.KeyWithTs(gen.Key(r, 9), uint64(r.Intn(60))))
	}
	return out
}

// C18 builds real SSTables from generated entries under many option combinations and compares every
// read path with the input slice.
func C18(c *core.Ctx) {
	c.Rule("generated strictly increasing entry sequences (hostile keys, 1-3 versions/key, values 0..maxVal crossing block boundaries; " +
		"plus 64-65 KB keys sharing long prefixes) x {block size, none/snappy/zstd, AES-128/192/256 or none, bloom on/off, 4 checksum modes, " +
		"file or in-memory}; oracle = input slice: forward/reverse traversal, Seek from sampled keys and key+-1 and random keys, " +
		"ConcatIterator over adjacent tables, Smallest/Biggest/MaxVersion/KeyCount, VerifyChecksum, DoesNotHave; distinct = distinct option combinations")
	r := c.Rand("c18")
	dir := c.WorkDir()
	defer os.RemoveAll(dir)
	blockSizes := []int{64, 100, 512, 4096}
	comps := []options.CompressionType{options.None, options.Snappy, options.ZSTD}
	encs := []int{0, 16, 24, 32}
	chks := []options.ChecksumVerificationMode{options.NoVerification, options.OnTableRead, options.OnBlockRead, options.OnTableAndBlockRead}
	n := c.Pick(160, 2500)
	var id uint64
	for i := 0; i < n; i++ {
		cfg := tblCfg{BlockSize: blockSizes[r.Intn(len(blockSizes))], Compression: comps[r.Intn(len(comps))], KeyLen: encs[r.Intn(len(encs))],
			Chk: chks[r.Intn(len(chks))], InMem: r.Intn(3) == 0, BlockCache: r.Intn(2) == 0}
		if r.Intn(4) != 0 {
			cfg.Bloom = []float64{0.01, 0.5, 0.0001}[r.Intn(3)]
		}
		big := i%40 == 7
		var ents []KV
		if big {
			ents = genEntries(r, 3+r.Intn(4), 0, 200, true)
		} else {
			ents = genEntries(r, 1+r.Intn(120), 10, []int{5, 60, 300, 5000}[r.Intn(4)], false)
		}
		// split into 1-3 adjacent tables at user-key boundaries for the concat check
		parts := [][]KV{ents}
		if len(ents) > 6 && r.Intn(2) == 0 {
			cut := 1 + r.Intn(len(ents)-1)
			for cut < len(ents) && y.SameKey(ents[cut].Key, ents[cut-1].Key) {
				cut++
			}
			if cut < len(ents) {
				parts = [][]KV{ents[:cut], ents[cut:]}
			}
		}
		info := map[string]any{"cfg": cfg.String(), "entries": len(ents), "bigKeys": big, "tables": len(parts)}
		c.Eval(1)
		var tbls []*table.Table
		failed := false
		for _, p := range parts {
			id++
			t, err := buildTable(dir, id, cfg, p)
			if err != nil {
				c.Violation("C18|build|"+cfg.String(), fmt.Sprintf("building/opening table failed: %v", err), info)
				failed = true
				break
			}
			tbls = append(tbls, t)
			// metadata
			var maxV uint64
			for _, e := range p {
				if v := y.ParseTs(e.Key); v > maxV {
					maxV = v
				}
			}
			if !bytes.Equal(t.Smallest(), p[0].Key) || !bytes.Equal(t.Biggest(), p[len(p)-1].Key) || t.MaxVersion() != maxV || int(t.KeyCount()) != len(p) {
				c.Violation("C18|meta", fmt.Sprintf("smallest/biggest/maxVersion/keyCount mismatch: maxV %d vs %d, count %d vs %d", t.MaxVersion(), maxV, t.KeyCount(), len(p)), info)
			}
			if err := t.VerifyChecksum(); err != nil {
				c.Violation("C18|checksum", fmt.Sprintf("VerifyChecksum: %v", err), info)
			}
			for _, e := range p {
				if t.DoesNotHave(y.Hash(y.ParseKey(e.Key))) {
					c.Violation("C19|table-bloom", "DoesNotHave()==true for a key that was added", info)
					break
				}
			}
			sk := seekersFor(r, p, 12)
			if !checkIter(c, "C18|table", func(rev bool) y.Iterator {
				opt := 0
				if rev {
					opt = table.REVERSED
				}
				return t.NewIterator(opt)
			}, p, sk, info) {
				failed = true
			}
		}
		if !failed && len(tbls) > 1 {
			sk := seekersFor(r, ents, 12)
			checkIter(c, "C18|concat", func(rev bool) y.Iterator {
				opt := 0
				if rev {
					opt = table.REVERSED
				}
				return table.NewConcatIterator(tbls, opt)
			}, ents, sk, info)
		}
		for _, t := range tbls {
			_ = t.DecrRef()
		}
		c.Distinct(cfg.String() + fmt.Sprintf("|big%v", big))
		if i < 3 {
			c.Sample(info)
		}
	}
	c.Assume("sampled option/entry space; table sizes up to a few MB")
}
