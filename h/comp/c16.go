package comp

import (
	"bytes"
	"crypto/rand"
	"encoding/binary"
	"fmt"
	mrand "math/rand"
	"os"
	"path/filepath"
	"strconv"
	"time"

	badger "github.com/dgraph-io/badger/v4"
	"github.com/dgraph-io/badger/v4/y"

	"verif/h/core"
	"verif/h/gen"
)

var txnKey = []byte("!badger!txn")

func uvarintLen(x uint64) int {
	var b [binary.MaxVarintLen64]byte
	return binary.PutUvarint(b[:], x)
}

// refRecordLen is the independent computation of an encoded record's length.
func refRecordLen(e badger.VerifEntry) uint32 {
	return uint32(2 + uvarintLen(uint64(len(e.Key))) + uvarintLen(uint64(len(e.Value))) + uvarintLen(e.ExpiresAt) + len(e.Key) + len(e.Value) + 4)
}

type logRec struct {
	e      badger.VerifEntry
	group  int  // group index
	fin    bool // end-of-transaction marker
	off    uint32
	length uint32
}

func entEqual(a, b badger.VerifEntry) bool {
	return bytes.Equal(a.Key, b.Key) && bytes.Equal(a.Value, b.Value) && a.Meta == b.Meta && a.UserMeta == b.UserMeta && a.ExpiresAt == b.ExpiresAt
}

// C16 monitors the real log-file encode/iterate/read code.
func C16(c *core.Ctx) {
	c.Rule("generated log files: groups of transactional entries (bitTxn, one commit ts drawn from the whole 64-bit range) closed by an end marker, interleaved non-transactional entries, " +
		"optionally a last group without its end marker; keys 1..65000 bytes, values 0..3 MiB (value-log files hold values larger than the largest ValueThreshold), all meta/userMeta, expiry 0/max, plain and AES; " +
		"oracle: iterate delivers exactly the entries of complete groups in write order with value pointers equal to an independently computed (offset,len), " +
		"ReadAt(vp) returns the same entry, validEndOffset = end of last complete group, every single-byte flip inside key/value/crc of sampled records " +
		"makes that record's group and everything after it disappear and nothing altered is ever returned; distinct = (encrypted, group-shape, size-class) classes")
	r := c.Rand("c16")
	dir := c.WorkDir()
	defer os.RemoveAll(dir)
	files := c.Pick(120, 1500)
	for f := 0; f < files; f++ {
		enc := f%2 == 1
		sub := filepath.Join(dir, fmt.Sprintf("f%d", f))
		_ = os.MkdirAll(sub, 0o755)
		opt := badger.DefaultOptions(sub).WithLogger(nil)
		kro := badger.KeyRegistryOptions{Dir: sub, EncryptionKeyRotationDuration: 240 * time.Hour}
		if enc {
			kro.EncryptionKey = make([]byte, []int{16, 24, 32}[r.Intn(3)])
			_, _ = rand.Read(kro.EncryptionKey)
		}
		reg, err := badger.OpenKeyRegistry(kro)
		if err != nil {
			c.Inconclusive("key registry: " + err.Error())
			continue
		}
		big := f%15 == 3
		lf, err := badger.VerifOpenLogFile(filepath.Join(sub, "000001.vlog"), 1, 16<<20, reg, opt, true)
		if err != nil {
			c.Inconclusive("open log: " + err.Error())
			continue
		}
		// generate
		var recs []logRec
		nGroups := 1 + r.Intn(8)
		incompleteLast := r.Intn(3) == 0
		shape := ""
		for g := 0; g < nGroups; g++ {
			txn := r.Intn(3) != 0
			n := 1 + r.Intn(4)
			ts := uint64(1 + g + r.Intn(2)*1000)
			switch r.Intn(6) {
			case 0: // managed-mode commit timestamps use the whole 64-bit range
				ts = 1<<63 + uint64(g) + uint64(r.Intn(1000))
			case 1:
				ts = ^uint64(0) - 1 - uint64(g)
			case 2:
				ts = 1<<32 + uint64(g)
			}
			for i := 0; i < n; i++ {
				kl := 1 + r.Intn(20)
				vl := r.Intn(200)
				if big && r.Intn(3) == 0 {
					kl = []int{64999 - 8, 65000 - 8, 30000, 127, 128, 16383, 16384}[r.Intn(7)]
					vl = []int{0, 1 << 20, 65536, 16383, 16384, 300000, 1<<20 + 1, 3<<20 + 5}[r.Intn(8)]
				}
				e := badger.VerifEntry{Key: y.KeyWithTs(gen.Bytes(r, kl), ts), Value: gen.Bytes(r, vl), UserMeta: byte(r.Intn(256)),
					Meta: []byte{0, badger.VerifBitDelete, badger.VerifBitValuePointer, badger.VerifBitDiscardEarlierVersions, badger.VerifBitMergeEntry}[r.Intn(5)]}
				switch r.Intn(3) {
				case 1:
					e.ExpiresAt = ^uint64(0)
				case 2:
					e.ExpiresAt = uint64(r.Int63())
				}
				if txn {
					e.Meta |= badger.VerifBitTxn
				}
				recs = append(recs, logRec{e: e, group: g})
				if !txn {
					break // each non-txn entry is its own group
				}
			}
			if txn {
				shape += "T"
				if g == nGroups-1 && incompleteLast {
					shape += "!"
					continue
				}
				recs = append(recs, logRec{group: g, fin: true, e: badger.VerifEntry{Key: y.KeyWithTs(txnKey, ts),
					Value: []byte(strconv.FormatUint(ts, 10)), Meta: badger.VerifBitFinTxn}})
			} else {
				shape += "n"
			}
		}
		// write
		wok := true
		for i := range recs {
			vp, err := lf.Write(recs[i].e)
			if err != nil {
				c.Violation("C16|write", fmt.Sprintf("write failed: %v", err), nil)
				wok = false
				break
			}
			recs[i].off, recs[i].length = vp.Offset, vp.Len
			// independent offsets
			wantOff := uint32(badger.VerifVlogHeaderSize)
			if i > 0 {
				wantOff = recs[i-1].off + recs[i-1].length
			}
			if vp.Offset != wantOff || vp.Len != refRecordLen(recs[i].e) {
				c.Violation("C16|layout", fmt.Sprintf("record %d written at (%d,%d), independent encoder says (%d,%d)", i, vp.Offset, vp.Len, wantOff, refRecordLen(recs[i].e)), nil)
			}
		}
		if !wok {
			lf.Close()
			continue
		}
		c.Eval(1)
		info := map[string]any{"file": f, "encrypted": enc, "shape": shape, "records": len(recs), "big": big}
		// expected delivered list for "groups < stopGroup complete"
		complete := map[int]bool{}
		for _, rc := range recs {
			if rc.fin || rc.e.Meta&badger.VerifBitTxn == 0 {
				complete[rc.group] = true
			}
		}
		expect := func(stopGroup int) ([]logRec, uint32) {
			var out []logRec
			end := uint32(badger.VerifVlogHeaderSize)
			for _, rc := range recs {
				if rc.group >= stopGroup || !complete[rc.group] {
					break
				}
				if !rc.fin {
					out = append(out, rc)
				}
				end = rc.off + rc.length
			}
			// end must be the end of the last record of the last complete group
			for i := len(recs) - 1; i >= 0; i-- {
				if recs[i].group < stopGroup && complete[recs[i].group] {
					// but only if all earlier groups complete too
					break
				}
			}
			return out, end
		}
		check := func(stopGroup int, sig, what string) bool {
			want, wantEnd := expect(stopGroup)
			var got []logRec
			end, err := lf.Iterate(0, func(e badger.VerifEntry, vp badger.VerifVP) error {
				got = append(got, logRec{e: e, off: vp.Offset, length: vp.Len})
				return nil
			})
			if err != nil {
				c.Violation(sig+"|error", what+": iterate returned error "+err.Error(), info)
				return false
			}
			if len(got) != len(want) {
				c.Violation(sig+"|count", fmt.Sprintf("%s: iterate delivered %d entries, want %d", what, len(got), len(want)), info)
				return false
			}
			for i := range got {
				if !entEqual(got[i].e, want[i].e) || got[i].off != want[i].off || got[i].length != want[i].length {
					c.Violation(sig+"|entry", fmt.Sprintf("%s: delivered entry %d differs from what was written (or wrong value pointer)", what, i), info)
					return false
				}
			}
			if end != wantEnd {
				c.Violation(sig+"|endoffset", fmt.Sprintf("%s: validEndOffset %d want %d", what, end, wantEnd), info)
				return false
			}
			return true
		}
		ok := check(1<<30, "C16|iterate", "clean file")
		// ReadAt
		for i, rc := range recs {
			if !ok {
				break
			}
			e, err := lf.ReadAt(badger.VerifVP{Fid: 1, Offset: rc.off, Len: rc.length})
			if err != nil || !entEqual(e, rc.e) {
				c.Violation("C16|readat", fmt.Sprintf("ReadAt(record %d) err=%v or differs", i, err), info)
				ok = false
			}
		}
		// corruption: sampled records, flips in key / value / crc regions
		if ok {
			data := lf.Data()
			nflip := 0
			for _, ri := range r.Perm(len(recs)) {
				if nflip >= 3 {
					break
				}
				rc := recs[ri]
				hdr := int(rc.length) - len(rc.e.Key) - len(rc.e.Value) - 4
				lo, hi := int(rc.off)+hdr, int(rc.off+rc.length) // key..crc
				step := 1
				if hi-lo > 400 {
					step = (hi - lo) / 200
				}
				nflip++
				for p := lo; p < hi; p += step {
					old := data[p]
					data[p] ^= byte(1 << uint(r.Intn(8)))
					good := check(rc.group, "C16|corrupt", fmt.Sprintf("flip at record-relative byte region (record %d of group %d)", ri, rc.group))
					data[p] = old
					c.Count("byte_flips", 1)
					if !good {
						break
					}
				}
			}
			// header flips: weaker oracle - nothing altered is returned
			for t := 0; t < 6; t++ {
				rc := recs[r.Intn(len(recs))]
				hdr := int(rc.length) - len(rc.e.Key) - len(rc.e.Value) - 4
				p := int(rc.off) + r.Intn(hdr)
				old := data[p]
				data[p] ^= byte(1 << uint(r.Intn(8)))
				byOff := map[uint32]logRec{}
				for _, x := range recs {
					byOff[x.off] = x
				}
				_, err := lf.Iterate(0, func(e badger.VerifEntry, vp badger.VerifVP) error {
					o, found := byOff[vp.Offset]
					if !found || !entEqual(o.e, e) {
						c.Violation("C16|corrupt-header|altered", "an entry altered by a header byte flip was returned by iterate", info)
					}
					return nil
				})
				_ = err
				data[p] = old
				c.Count("header_flips", 1)
			}
		}
		lf.Close()
		_ = reg.Close()
		_ = os.RemoveAll(sub)
		sz := "small"
		if big {
			sz = "big"
		}
		c.Distinct(fmt.Sprintf("enc%v|%s|%s", enc, shape, sz))
		if f < 3 {
			c.Sample(info)
		}
	}
	c.Assume("flip positions sampled (every byte of small records, ~200 positions of large ones); three records per file")
}

var _ = mrand.Int
