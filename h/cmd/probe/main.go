package main

import (
	"fmt"
	"os"
	"time"

	badger "github.com/dgraph-io/badger/v4"
	"verif/h/gen"
)

func must(err error) {
	if err != nil {
		panic(err)
	}
}

func main() {
	dir := "/verif/.work/probe"
	os.RemoveAll(dir)
	os.MkdirAll(dir, 0o755)
	o := badger.DefaultOptions(dir).WithLogger(nil)
	o.NumCompactors = 0
	o.MemTableSize = 1 << 20
	o.ValueThreshold = 32
	o.ValueLogFileSize = 1 << 20
	o.ValueLogMaxEntries = 20
	o.MaxLevels = 3
	o.NumLevelZeroTables = 1
	o.NumLevelZeroTablesStall = 20
	db, err := badger.Open(o)
	must(err)
	set := func(k string, tok string) {
		must(db.Update(func(txn *badger.Txn) error { return txn.Set([]byte(k), gen.Expand(tok, 2000)) }))
	}
	flushAll := func() {
		_, err := db.VerifRotateMemtable()
		must(err)
		db.VerifWaitFlushed(10 * time.Second)
	}
	compactL0 := func() {
		ok, err := db.VerifCompact(1, badger.VerifPrio{Level: 0, Score: 2, Adjusted: 2})
		fmt.Println("compact L0:", ok, err)
	}
	set("victim", "v1")
	for i := 0; i < 15; i++ {
		set(fmt.Sprintf("junk%02d", i), "j1")
	}
	flushAll()
	compactL0()
	fmt.Println("vlog fids", db.VerifVlogFids())
	// overwrite junk -> garbage in file 1
	for i := 0; i < 15; i++ {
		set(fmt.Sprintf("junk%02d", i), "j2")
	}
	flushAll()
	compactL0() // drops old junk versions, creates discard stats for file 1
	fmt.Println("discard", db.VerifDiscardStats(), "fids", db.VerifVlogFids())
	// delete victim, tombstone to L0 only
	must(db.Update(func(txn *badger.Txn) error { return txn.Delete([]byte("victim")) }))
	flushAll()
	get := func(when string) {
		err := db.View(func(txn *badger.Txn) error {
			it, err := txn.Get([]byte("victim"))
			if err != nil {
				return err
			}
			fmt.Println(when, "FOUND victim version", it.Version())
			return nil
		})
		if err != nil {
			fmt.Println(when, "victim:", err)
		}
	}
	get("after delete")
	fmt.Println("GC:", db.RunValueLogGC(0.01))
	get("after GC")
	compactL0()
	get("after compacting the tombstone down")
	must(db.Close())
	db, err = badger.Open(o)
	must(err)
	get("after re-open")
	db.Close()
	os.RemoveAll(dir)
}
