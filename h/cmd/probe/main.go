package main

import (
	"fmt"
	"os"
	"time"

	badger "github.com/dgraph-io/badger/v4"
)

func main() {
	dir := "/verif/.work/probe"
	os.RemoveAll(dir)
	os.MkdirAll(dir, 0o755)
	o := badger.DefaultOptions(dir).WithLogger(nil)
	o.NumCompactors = 0
	db, _ := badger.Open(o)
	snap := db.NewTransaction(false)
	fmt.Println("snap readTs", snap.ReadTs())
	for i := 0; i < 5; i++ {
		db.Update(func(txn *badger.Txn) error { return txn.Set([]byte("k"), []byte("v")) })
	}
	fmt.Println("discard with snap open", db.VerifDiscardTs())
	snap.Discard()
	time.Sleep(10 * time.Millisecond)
	fmt.Println("discard after snap closed", db.VerifDiscardTs())
	db.Update(func(txn *badger.Txn) error { return txn.Set([]byte("k"), []byte("v")) })
	time.Sleep(10 * time.Millisecond)
	fmt.Println("discard after one more commit", db.VerifDiscardTs())
	db.View(func(txn *badger.Txn) error { return nil })
	time.Sleep(10 * time.Millisecond)
	fmt.Println("discard after a view", db.VerifDiscardTs())
	db.Close()
	os.RemoveAll(dir)
}
