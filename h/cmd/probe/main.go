package main

import (
	"fmt"

	badger "github.com/dgraph-io/badger/v4"
)

func main() {
	for _, inmem := range []bool{true, false} {
		o := badger.DefaultOptions("/verif/.work/probe2").WithLogger(nil)
		if inmem {
			o = badger.DefaultOptions("").WithInMemory(true).WithLogger(nil)
		}
		db, err := badger.Open(o)
		if err != nil {
			panic(err)
		}
		for _, k := range []string{"a1", "a2", "b1", "c1"} {
			db.Update(func(txn *badger.Txn) error { return txn.Set([]byte(k), []byte("v")) })
		}
		fmt.Println("inmem", inmem, "DropPrefix(a1):", db.DropPrefix([]byte("a1")))
		db.View(func(txn *badger.Txn) error {
			for _, k := range []string{"a1", "a2", "b1", "c1"} {
				_, err := txn.Get([]byte(k))
				fmt.Println("  ", k, err)
			}
			return nil
		})
		db.Update(func(txn *badger.Txn) error { return txn.Set([]byte("a2"), []byte("v2")) })
		fmt.Println("  second DropPrefix(c):", db.DropPrefix([]byte("c")))
		db.View(func(txn *badger.Txn) error {
			for _, k := range []string{"a1", "a2", "b1", "c1"} {
				_, err := txn.Get([]byte(k))
				fmt.Println("  ", k, err)
			}
			return nil
		})
		db.Close()
	}
}
