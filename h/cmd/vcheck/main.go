// vcheck runs one property check: vcheck <Cnn> [--tier quick|thorough]
package main

import (
	"flag"
	"fmt"
	"os"
	"sort"

	"verif/h/comp"
	"verif/h/core"
	"verif/h/props"
)

type entry struct {
	level string
	fn    func(*core.Ctx)
}

var registry = map[string]entry{
	"C01": {"exploration", props.C01},
	"C02": {"exploration", props.C02},
	"C03": {"exploration", props.C03},
	"C04": {"exploration", props.C04},
	"C05": {"exploration", props.C05},
	"C06": {"exploration", props.C06},
	"C07": {"exploration", props.C07},
	"C08": {"fault_enumeration", props.C08},
	"C09": {"fault_enumeration", props.C09},
	"C10": {"fault_enumeration", props.C10},
	"C11": {"exploration", props.C11},
	"C12": {"exploration", props.C12},
	"C13": {"exploration", props.C13},
	"C14": {"exploration", props.C14},
	"C15": {"exploration", props.C15},
	"C23": {"exploration", props.C23},
	"C24": {"exploration", props.C24},
	"C25": {"exploration", props.C25},
	"C26": {"exploration", props.C26},
	"C27": {"exploration", props.C27},
	"C29": {"exploration", props.C29},
	"C30": {"exploration", props.C30},
	"C31": {"exploration", props.C31},
	"C32": {"exploration", props.C32},
	"C33": {"exploration", props.C33},
	"C34": {"exploration", props.C34},
	"C35": {"exploration", props.C35},
	"C36": {"exploration", props.C36},
	"C37": {"exploration", props.C37},
	"C38": {"exploration", props.C38},
	"C28": {"exploration", props.C28},
	"C20": {"exploration", comp.C20},
	"C21": {"exploration", comp.C21},
	"C16": {"exploration", comp.C16},
	"C17": {"exploration", comp.C17},
	"C22": {"exploration", comp.C22},
	"C18": {"exploration", comp.C18},
	"C19": {"exploration", comp.C19},
}

func main() {
	if len(os.Args) < 2 {
		var ids []string
		for k := range registry {
			ids = append(ids, k)
		}
		sort.Strings(ids)
		fmt.Println("usage: vcheck <id> [--tier quick|thorough]; ids:", ids)
		os.Exit(2)
	}
	id := os.Args[1]
	if dispatchChild(id, os.Args[2:]) {
		return
	}
	fs := flag.NewFlagSet("vcheck", flag.ExitOnError)
	tier := fs.String("tier", "", "quick|thorough")
	_ = fs.Parse(os.Args[2:])
	if *tier == "" {
		*tier = os.Getenv("VERIF_TIER")
	}
	if *tier != "thorough" {
		*tier = "quick"
	}
	e, ok := registry[id]
	if !ok {
		fmt.Println("unknown check", id)
		os.Exit(2)
	}
	c := core.New(id, *tier, e.level)
	e.fn(c)
	os.Exit(c.Finish())
}

// dispatchChild runs child-process roles (crash workers, lock holders...). Filled in by engines.
func dispatchChild(id string, args []string) bool {
	if len(args) >= 2 && args[0] == "--child-ro" {
		os.Exit(props.ChildRO(args[1]))
	}
	if len(args) >= 2 && args[0] == "--child-crash" {
		os.Exit(props.ChildCrash(args[1]))
	}
	if len(args) >= 2 && args[0] == "--child-verify" {
		os.Exit(props.ChildVerify(args[1]))
	}
	if len(args) >= 1 && args[0] == "--child-lock" {
		os.Exit(props.ChildLock())
	}
	if len(args) >= 2 && args[0] == "--child-inmem" {
		var seed int64
		fmt.Sscan(args[1], &seed)
		os.Exit(props.ChildInMem(seed))
	}
	return false
}
