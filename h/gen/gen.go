// Package gen has seeded generators for hostile keys, versions and values.
package gen

import (
	"crypto/sha256"
	"encoding/binary"
	"fmt"
	"math"
	"math/rand"
	"sort"
)

// Alphabet is the hostile byte alphabet: keys that are prefixes of each other, end in 0x00/0xFF
// and look like another key plus an 8-byte version suffix become common.
var Alphabet = []byte{0x00, 'a', 'b', 0xFF}

// Key returns a hostile key of length 1..maxLen.
func Key(r *rand.Rand, maxLen int) []byte {
	n := 1 + r.Intn(maxLen)
	k := make([]byte, n)
	for i := range k {
		k[i] = Alphabet[r.Intn(len(Alphabet))]
	}
	return k
}

// KeySet returns n distinct hostile keys (sorted), including prefix chains and suffix look-alikes.
func KeySet(r *rand.Rand, n, maxLen int) [][]byte {
	m := map[string]struct{}{}
	add := func(k []byte) {
		if len(k) > 0 {
			m[string(k)] = struct{}{}
		}
	}
	for len(m) < n {
		k := Key(r, maxLen)
		add(k)
		switch r.Intn(6) {
		case 0: // a key that extends k by something that looks like a version suffix
			s := make([]byte, 8)
			binary.BigEndian.PutUint64(s, math.MaxUint64-uint64(r.Intn(5)))
			add(append(append([]byte{}, k...), s...))
		case 1:
			add(append(append([]byte{}, k...), 0x00))
		case 2:
			add(append(append([]byte{}, k...), 0xFF))
		case 3:
			if len(k) > 1 {
				add(k[:len(k)-1])
			}
		}
	}
	var out [][]byte
	for k := range m {
		out = append(out, []byte(k))
	}
	sort.Slice(out, func(i, j int) bool { return string(out[i]) < string(out[j]) })
	if len(out) > n {
		// keep a random subset of size n but stay sorted
		r.Shuffle(len(out), func(i, j int) { out[i], out[j] = out[j], out[i] })
		out = out[:n]
		sort.Slice(out, func(i, j int) bool { return string(out[i]) < string(out[j]) })
	}
	return out
}

// Versions are boundary versions.
var Versions = []uint64{0, 1, 2, 3, 255, 256, 65535, 65536, 1 << 31, 1<<32 - 1, 1 << 32, 1<<63 - 1, 1 << 63,
	math.MaxUint64 - 1, math.MaxUint64}

// Version draws a version, biased to boundaries.
func Version(r *rand.Rand) uint64 {
	switch r.Intn(3) {
	case 0:
		return Versions[r.Intn(len(Versions))]
	case 1:
		return uint64(r.Intn(20))
	}
	return r.Uint64()
}

// Token returns the unique token string for writer w and sequence s.
func Token(w, s int) string { return fmt.Sprintf("w%d.%d", w, s) }

// Expand expands a token to n bytes deterministically (PRF). The token itself is the prefix when it
// fits, so that a read names the write it saw; the remainder is high-entropy.
func Expand(token string, n int) []byte {
	out := make([]byte, 0, n+32)
	if n >= len(token)+1 {
		out = append(out, token...)
		out = append(out, '|')
	}
	var ctr uint64
	for len(out) < n {
		var c [8]byte
		binary.BigEndian.PutUint64(c[:], ctr)
		h := sha256.Sum256(append([]byte(token), c[:]...))
		out = append(out, h[:]...)
		ctr++
	}
	return out[:n]
}

// Bytes returns n random bytes.
func Bytes(r *rand.Rand, n int) []byte {
	b := make([]byte, n)
	r.Read(b)
	return b
}
