package props

import (
	"bytes"
	"fmt"
	"math/rand"

	badger "github.com/dgraph-io/badger/v4"

	"verif/h/core"
	"verif/h/drv"
	"verif/h/gen"
	"verif/h/hist"
	"verif/h/model"
)

// scriptOp is one step of a deterministic, DB-independent script.
type scriptOp struct {
	Kind   string // commit | batch | flush | compact | force | dropprefix | dropall | check | reopen
	Specs  []drv.WriteSpec
	ID     int
	Level  int
	Prefix []byte
	// More prefixes for one DropPrefix call (C29 scripts only).
	Prefixes [][]byte
}

// genScript draws every random choice up front so that the same script can be run on two databases.
func genScript(r *rand.Rand, keys [][]byte, n int, sizes []int, drops bool) []scriptOp {
	var out []scriptOp
	spec := func() drv.WriteSpec {
		s := drv.WriteSpec{Key: keys[r.Intn(len(keys))], Len: sizes[r.Intn(len(sizes))]}
		switch r.Intn(8) {
		case 0, 1:
			s.Del = true
		case 2:
			s.Meta = byte(1 + r.Intn(200))
			s.Expires = hist.FarFuture()
		case 3:
			s.Meta = byte(1 + r.Intn(200))
			s.Expires = hist.FarPast()
		case 4:
			s.Meta = byte(1 + r.Intn(200))
		}
		return s
	}
	for i := 0; i < n; i++ {
		switch x := r.Intn(100); {
		case x < 55:
			op := scriptOp{Kind: "commit"}
			seen := map[string]bool{}
			for j := 0; j < 1+r.Intn(4); j++ {
				s := spec()
				if !seen[string(s.Key)] {
					seen[string(s.Key)] = true
					op.Specs = append(op.Specs, s)
				}
			}
			out = append(out, op)
		case x < 62:
			op := scriptOp{Kind: "batch"}
			for j := 0; j < 5+r.Intn(120); j++ {
				op.Specs = append(op.Specs, spec())
			}
			out = append(out, op)
		case x < 72:
			out = append(out, scriptOp{Kind: "flush"}, scriptOp{Kind: "check"})
		case x < 84:
			out = append(out, scriptOp{Kind: "compact", ID: r.Intn(3)}, scriptOp{Kind: "check"})
		case x < 89:
			out = append(out, scriptOp{Kind: "force", ID: 1 + r.Intn(2), Level: r.Intn(3)}, scriptOp{Kind: "check"})
		case x < 93:
			if drops {
				k := keys[r.Intn(len(keys))]
				out = append(out, scriptOp{Kind: "dropprefix", Prefix: append([]byte{}, k[:1+r.Intn(len(k))]...)}, scriptOp{Kind: "check"})
			}
		case x < 95:
			if drops {
				out = append(out, scriptOp{Kind: "dropall"}, scriptOp{Kind: "check"})
			}
		default:
			out = append(out, scriptOp{Kind: "check"})
		}
	}
	out = append(out, scriptOp{Kind: "check"})
	return out
}

// stateLog renders the visible state (and all versions) as comparable lines.
func stateLog(db *badger.DB) []string {
	var out []string
	_ = db.View(func(txn *badger.Txn) error {
		for _, rev := range []bool{false, true} {
			io := badger.DefaultIteratorOptions
			io.Reverse = rev
			it := txn.NewIterator(io)
			for it.Rewind(); it.Valid(); it.Next() {
				rec := hist.ReadItemPublic(it.Item(), true)
				out = append(out, fmt.Sprintf("rev=%v %x@%d len=%d sum=%x meta=%d exp=%d", rev, rec.Key, rec.Version, rec.ValLen, rec.ValSum, rec.UserMeta, rec.ExpiresAt))
			}
			it.Close()
		}
		return nil
	})
	return out
}

// execScript runs the script on w and returns one state log per check step. It also compares every
// check with the model. fresh reopens with the given options when a reopen op is met.
func execScript(c *core.Ctx, w *drv.World, script []scriptOp) [][]string {
	var logs [][]string
	for _, op := range script {
		if c.Violations() > 0 {
			break
		}
		switch op.Kind {
		case "commit":
			if ts, err := w.Commit(op.Specs); err != nil {
				c.Violation(w.Sig+"|commit-error", err.Error(), w.Witness())
			} else {
				var ks []string
				for _, s := range op.Specs {
					ks = append(ks, fmt.Sprintf("%x del=%v", s.Key, s.Del))
				}
				w.Steps = append(w.Steps, fmt.Sprintf("commit ts=%d %v", ts, ks))
			}
		case "batch":
			wb := w.DB.NewWriteBatch()
			type kv struct {
				k string
				v model.Ver
			}
			var last []kv
			for j, s := range op.Specs {
				var err error
				if s.Del {
					err = wb.Delete(append([]byte{}, s.Key...))
					last = append(last, kv{string(s.Key), model.Ver{Del: true}})
				} else {
					tok := w.Tok("wb")
					_ = j
					e := badger.NewEntry(append([]byte{}, s.Key...), gen.Expand(tok, s.Len))
					v := model.Ver{Token: tok, Len: s.Len, UserMeta: s.Meta, ExpiresAt: s.Expires}
					if s.Meta != 0 {
						e = e.WithMeta(s.Meta)
					}
					e.ExpiresAt = s.Expires
					err = wb.SetEntry(e)
					last = append(last, kv{string(s.Key), v})
				}
				if err != nil {
					c.Violation(w.Sig+"|batch-error", err.Error(), w.Witness())
				}
			}
			if err := wb.Flush(); err != nil {
				c.Violation(w.Sig+"|batch-flush-error", err.Error(), w.Witness())
				continue
			}
			// versions of batch entries are assigned by badger: read them back per key (later call wins)
			final := map[string]model.Ver{}
			for _, p := range last {
				final[p.k] = p.v
			}
			_ = w.DB.View(func(txn *badger.Txn) error {
				io := badger.DefaultIteratorOptions
				io.AllVersions = true
				io.PrefetchValues = false
				for k, v := range final {
					it := txn.NewKeyIterator([]byte(k), io)
					it.Rewind()
					if it.Valid() {
						v.Ts = it.Item().Version()
						w.M.Put(k, v)
					}
					it.Close()
				}
				return nil
			})
			w.Steps = append(w.Steps, fmt.Sprintf("batch n=%d", len(op.Specs)))
		case "flush":
			w.Flush()
		case "compact":
			w.CompactPicked(op.ID)
		case "force":
			if op.Level < w.Opt.MaxLevels-1 {
				w.CompactForce(op.Level, op.ID)
			}
		case "dropprefix":
			w.Steps = append(w.Steps, fmt.Sprintf("tables before DropPrefix(%x): %v", op.Prefix, tableSummaryLocal(w.DB)))
			all := append([][]byte{op.Prefix}, op.Prefixes...)
			if err := w.DB.DropPrefix(all...); err != nil {
				c.Violation(w.Sig+"|dropprefix-error", err.Error(), w.Witness())
				continue
			}
			for k := range w.M.M {
				for _, p := range all {
					if bytes.HasPrefix([]byte(k), p) {
						delete(w.M.M, k)
						break
					}
				}
			}
			w.Steps = append(w.Steps, fmt.Sprintf("DropPrefix(%x)", all))
			if len(op.Prefixes) > 0 {
				// a multi-prefix drop rewrites groups of tables on every level: validate the structure right away
				checkStructure(c, w.Sig+"|after-dropprefix", w.DB, w.Opt, true, w.Witness)
			}
		case "dropall":
			if err := w.DB.DropAll(); err != nil {
				c.Violation(w.Sig+"|dropall-error", err.Error(), w.Witness())
				continue
			}
			w.M.M = map[string][]model.Ver{}
			w.Steps = append(w.Steps, "DropAll")
		case "check":
			before := c.Violations()
			st := hist.CheckState(c, w.Sig+"|vs-model", w.DB, w.M, hist.StateOpts{Managed: w.Managed})
			if c.Violations() > before {
				c.Set("twin_failing_steps", w.Witness())
			}
			c.Count("twin.reads_checked", st.Gets+st.IterItems)
			logs = append(logs, stateLog(w.DB))
		}
	}
	return logs
}

func tableSummaryLocal(db *badger.DB) []string {
	var out []string
	for _, t := range db.Tables() {
		out = append(out, fmt.Sprintf("L%d id=%d [%x .. %x] keys=%d", t.Level, t.ID, t.Left, t.Right, t.KeyCount))
	}
	return out
}
