package props

import (
	"fmt"
	"os"
	"path/filepath"
	"sort"
	"strings"
	"sync"
	"time"

	"verif/h/core"
	"verif/h/hist"
)

type crashConfig struct {
	name    string
	variant int
	family  string
	sync    bool
	clients int
	txns    int
	// manifestRewrite lowers the MANIFEST rewrite threshold in the workload child
	manifestRewrite int
}

func crashConfigs(c *core.Ctx) []crashConfig {
	all := []crashConfig{
		{"base+deletes+manifest-rewrites", 0, "deletes", false, 4, 110, 6},
		{"aes128+gc", 3, "gc", false, 4, 110, 0},
		{"syncwrites+plain", 7, "plain", true, 4, 70, 0},
		{"snappy+deletes", 1, "deletes", false, 5, 90, 0},
		{"keepInf+gc+manifest-rewrites", 6, "gc", false, 4, 90, 10},
		{"zstd+levels7+deletes", 2, "deletes", false, 4, 120, 0},
	}
	if c.Thorough() {
		return all
	}
	return all[:3]
}

func newCrashSpec(c *core.Ctx, work string, cfg crashConfig, idx int, name string) (*CrashSpec, string) {
	dir := filepath.Join(work, name)
	_ = os.RemoveAll(dir)
	_ = os.MkdirAll(filepath.Join(dir, "db"), 0o755)
	r := c.Rand(fmt.Sprintf("crash-%s-%d", cfg.name, idx))
	s := &CrashSpec{Dir: filepath.Join(dir, "db"), Variant: cfg.variant, OptSeed: r.Int63(), Seed: r.Int63(), Family: cfg.family,
		Clients: cfg.clients, Txns: cfg.txns, SideLog: filepath.Join(dir, "side.log"), EndMode: "kill", SyncWrites: cfg.sync, Compactors: 2, MemTable: 12 << 10, ManifestRewrite: cfg.manifestRewrite}
	ov := hist.SmallOptions(s.Dir, s.Variant, c.Rand("k"))
	if n := len(ov.Opt.EncryptionKey); n > 0 {
		s.EncKey = make([]byte, n)
		r.Read(s.EncKey)
	}
	return s, filepath.Join(dir, "spec.json")
}

// pickKillPoints chooses event numbers: for every class seen in the counting run its first, a
// random and its last occurrence (more in the thorough tier), plus uniformly random ones.
func pickKillPoints(c *core.Ctx, events []string, perClass, uniform int, stream string) []int64 {
	r := c.Rand(stream)
	pos := map[string][]int64{}
	for i, e := range events {
		pos[e] = append(pos[e], int64(i+1))
	}
	classes := make([]string, 0, len(pos))
	for k := range pos {
		classes = append(classes, k)
	}
	sort.Strings(classes)
	seen := map[int64]bool{}
	var out []int64
	add := func(n int64) {
		if n > 0 && !seen[n] {
			seen[n] = true
			out = append(out, n)
		}
	}
	for _, k := range classes {
		p := pos[k]
		add(p[0])
		add(p[len(p)-1])
		for i := 0; i < perClass; i++ {
			add(p[r.Intn(len(p))])
		}
	}
	for i := 0; i < uniform && len(events) > 0; i++ {
		add(int64(1 + r.Intn(len(events))))
	}
	sort.Slice(out, func(i, j int) bool { return out[i] < out[j] })
	return out
}

// runCrashCase runs one workload child that dies at (class, n) and verifies the recovery.
func runCrashCase(c *core.Ctx, sig, work string, cfg crashConfig, idx int, name string, killAt int64, killClass string, prefix []string) (*sideInfo, bool) {
	s, specPath := newCrashSpec(c, work, cfg, idx, name)
	s.KillAt, s.KillClass = killAt, killClass
	writeSpec(s, specPath)
	defer os.RemoveAll(filepath.Dir(specPath))
	limit := 90 * time.Second
	if len(prefix) > 0 {
		limit = 240 * time.Second // strace -f slows the child several times
	}
	out, timedOut, _ := runChild(limit, prefix, c.ID, "--child-crash", specPath)
	if timedOut {
		// the watchdog fired (loaded machine, strace -f on a syncing workload): one more try in a
		// fresh directory with a generous limit before the case counts as inconclusive
		c.Count("crash.child_watchdog_retries", 1)
		os.RemoveAll(filepath.Dir(specPath))
		s, specPath = newCrashSpec(c, work, cfg, idx, name+"-retry")
		s.KillAt, s.KillClass = killAt, killClass
		writeSpec(s, specPath)
		defer os.RemoveAll(filepath.Dir(specPath))
		out, timedOut, _ = runChild(4*limit, prefix, c.ID, "--child-crash", specPath)
	}
	if timedOut {
		c.Inconclusive(fmt.Sprintf("workload child timed out (%s, kill at %d %s)", cfg.name, killAt, killClass))
		c.Sample(map[string]any{"timeout_output_tail": tailStr(out, 3000)})
		return nil, false
	}
	si := parseSideLog(s.SideLog)
	if si.fatal != "" {
		if strings.HasPrefix(si.fatal, "X open") {
			c.Violation(sig+"|first-open-error", si.fatal, map[string]any{"config": cfg.name})
		} else {
			c.Inconclusive("workload child: " + si.fatal)
		}
		return si, false
	}
	if si.killed == "" && !si.ended {
		// neither the chosen event nor the end of the workload was reached: the child died on its own
		if strings.Contains(out, "github.com/dgraph-io/badger/v4") && (strings.Contains(out, "panic:") || strings.Contains(out, "fatal error:") || strings.Contains(out, "BADGER-ASSERT-FAILED")) {
			c.Violation(sig+"|workload-crashed-inside-badger", "the workload process died inside badger before the injected kill", map[string]any{"config": cfg.name, "output": tailStr(out, 6000)})
			return si, false
		}
		if len(prefix) == 0 {
			c.Inconclusive("workload child ended without END/E line: " + tailStr(out, 300))
			return si, false
		}
	}
	wit := map[string]any{"case": name, "config": cfg.name, "family": cfg.family, "kill_at": killAt, "kill_class_requested": killClass, "killed_at_event": si.killed, "spec": s,
		"issued": len(si.issued), "acked": len(si.acked)}
	if !verifyRecovered(c, sig, s, specPath, si, si.acked, wit) {
		return si, false
	}
	return si, true
}

func tailStr(s string, n int) string {
	if len(s) > n {
		return s[len(s)-n:]
	}
	return s
}

// C08 a crash at any point recovers a commit prefix holding every acknowledged commit.
func C08(c *core.Ctx) {
	c.Rule("a workload child (3-4 transaction clients with 1-4 writes + a private marker key each, Commit/CommitWith, one WriteBatch client on write-once keys; 16-64 KiB memtables, " +
		"2 compactors, value-log rotation every 50 entries, the production MANIFEST rewrite run every 6-10 ms in one configuration; families: deletes, GC loop without deletes, SyncWrites) logs issue/ack/commit-timestamp lines outside the database; a " +
		"counting run records the sequence of hook events (persistence events + schedule points); then one child per chosen event number is SIGKILLed at that event (first, last and " +
		"random occurrences of every event class + uniformly random events) and, second source, by strace-injected SIGKILL on entry to the N-th unlinkat/ftruncate/renameat/msync " +
		"syscall (multi-step file operations inside ristretto); a verifier child re-opens the directory twice and dumps it; oracle: Open succeeds, recovered set S (visible markers) " +
		"contains every acknowledged commit, no logged commit timestamp below max(S) is missing, state equals S applied in timestamp order (token, length, version), batches are " +
		"prefixes and complete when acknowledged, structure validator, new commit above every stored version; distinct = (configuration, class of the killing event)")
	work := c.WorkDir()
	defer os.RemoveAll(work)
	type job struct {
		cfg       crashConfig
		idx       int
		name      string
		killAt    int64
		killClass string
		prefix    []string
		src       string
	}
	var jobs []job
	for ci, cfg := range crashConfigs(c) {
		// counting run (also a crash case: killed at the end without Close)
		s, specPath := newCrashSpec(c, work, cfg, 0, fmt.Sprintf("count-%d", ci))
		writeSpec(s, specPath)
		out, timedOut, _ := runChild(120*time.Second, nil, c.ID, "--child-crash", specPath)
		si := parseSideLog(s.SideLog)
		if timedOut || !si.ended {
			c.Inconclusive(fmt.Sprintf("counting run for %s did not end: %s", cfg.name, tailStr(out, 400)))
			os.RemoveAll(filepath.Dir(specPath))
			continue
		}
		c.Eval(1)
		verifyRecovered(c, "C08|end-of-workload", s, specPath, si, si.acked, map[string]any{"case": "counting run killed at the end without Close", "config": cfg.name, "spec": s})
		os.RemoveAll(filepath.Dir(specPath))
		byClass := map[string]int{}
		for _, e := range si.events {
			byClass[e]++
		}
		c.Set("event_classes_"+cfg.name, byClass)
		c.Count("crash.events_in_counting_runs", int64(len(si.events)))
		pts := pickKillPoints(c, si.events, c.Pick(1, 6), c.Pick(12, 150), "kp-"+cfg.name)
		for _, n := range pts {
			jobs = append(jobs, job{cfg: cfg, idx: 0, name: fmt.Sprintf("k%d-%d", ci, n), killAt: n, src: "hook"})
		}
		// rarely hit classes: aim at their k-th occurrence directly
		for cl, cnt := range byClass {
			if cnt <= 40 {
				for k := 1; k <= cnt && k <= c.Pick(2, 8); k++ {
					jobs = append(jobs, job{cfg: cfg, idx: 0, name: fmt.Sprintf("c%d-%s-%d", ci, strings.ReplaceAll(cl, "/", "_"), k), killAt: int64(k), killClass: cl, src: "hook-class"})
				}
			}
		}
		// strace: kill on entry to the N-th syscall of a class (N counts per thread)
		for _, sc := range []string{"unlinkat", "ftruncate", "renameat", "msync"} {
			ns := straceNs(c)
			if sc == "renameat" && cfg.manifestRewrite > 0 {
				ns = append(append([]int{}, ns...), 4, 6, 7, 8, 9) // rewrites rename often: more kill positions inside them
			}
			for _, n := range ns {
				jobs = append(jobs, job{cfg: cfg, idx: 0, name: fmt.Sprintf("s%d-%s-%d", ci, sc, n), src: "strace:" + sc,
					prefix: []string{"strace", "-f", "-o", "/dev/null", "-e", "trace=" + sc, "-e", fmt.Sprintf("inject=%s:signal=SIGKILL:when=%d", sc, n)}})
			}
		}
	}
	var wg sync.WaitGroup
	ch := make(chan job)
	for w := 0; w < 14; w++ {
		wg.Add(1)
		go func() {
			defer wg.Done()
			for j := range ch {
				sig := "C08|" + j.src
				if strings.HasPrefix(j.src, "strace") {
					sig = "C08|strace"
				} else {
					sig = "C08|hook"
				}
				si, ok := runCrashCase(c, sig, work, j.cfg, j.idx, j.name, j.killAt, j.killClass, j.prefix)
				c.Eval(1)
				if !ok || si == nil {
					continue
				}
				cls := si.killed
				if cls == "" {
					cls = "end-of-workload"
					if len(j.prefix) > 0 && !si.ended {
						cls = j.src
					}
				}
				c.Count("crash.cases."+strings.SplitN(j.src, ":", 2)[0], 1)
				c.Distinct(j.cfg.name + "|" + cls)
				if si.killed != "" || (len(j.prefix) > 0 && !si.ended) {
					c.Count("crash.killed_mid_workload", 1)
				}
			}
		}()
	}
	for _, j := range jobs {
		ch <- j
	}
	close(ch)
	wg.Wait()
	if c.Counter("crash.killed_mid_workload") == 0 {
		c.Inconclusive("no child was killed in the middle of its workload")
	}
	c.Sample(map[string]any{"jobs": len(jobs), "example": "child killed at hook event N; verifier re-opens; S = visible markers; acked subset of S; state = S applied in commit order"})
	c.Assume("the OS page cache survives (process kill, not power loss: C10); the N-th hook event differs slightly between runs of the concurrent workload, the class actually hit is what the evidence counts")
}

func straceNs(c *core.Ctx) []int {
	if c.Thorough() {
		return []int{1, 2, 3, 4, 5, 6, 7, 8, 10, 12, 14, 16, 20, 24, 28, 32}
	}
	return []int{1, 2, 3, 5}
}
