package props

import (
	"fmt"
	"os"

	badger "github.com/dgraph-io/badger/v4"

	"verif/h/core"
	"verif/h/drv"
	"verif/h/gen"
	"verif/h/model"
)

// C36 managed mode honours caller-chosen timestamps.
func C36(c *core.Ctx) {
	c.Rule("managed-mode driver histories: transactions committed with CommitAt at arbitrary, non-monotonic and repeated timestamps above the discard timestamp, managed write " +
		"batches with explicit per-entry versions (SetEntryAt/DeleteAt), flushes, production-picker/forced/L0->L0 compactions, snapshots opened with NewTransactionAt at " +
		"arbitrary timestamps and SetDiscardTs raised up to the smallest open read timestamp; after every flush/compaction/SetDiscardTs all keys are read (Get + both iteration " +
		"directions) at the newest timestamp, through every open snapshot and at sampled timestamps >= the discard timestamp and compared with the model (newest write at or below " +
		"the read timestamp, later call wins for an equal (key, version)); Item.Version must be the chosen timestamp; distinct = (options, used-repeated-timestamp, used-batch, compaction shape) classes")
	work := c.WorkDir()
	defer os.RemoveAll(work)
	r := c.Rand("c36")
	sr := &shapeRec{shapes: map[string]int{}}
	installShapeHook(sr)
	defer uninstallHooks()
	n := c.Pick(30, 300)
	for i := 0; i < n; i++ {
		first := true
		mono := i%2 == 0
		sig := "C36|arbitrary-timestamps"
		if mono {
			sig = "C36|per-key-monotone-timestamps"
		}
		driverRunX(c, sig, work, i, true, r, c.Pick(300, 500), false,
			func(o *badger.Options) {
				if i%4 < 2 {
					o.NumVersionsToKeep = 1 << 30
				}
			},
			func(w *drv.World, step string) {
				if first {
					first = false
					w.NonMonotonic = true
					w.PerKeyMonotone = mono
				}
				if step == "end" {
					return
				}
				// a managed write batch with explicit versions
				if w.R.Intn(3) == 0 {
					wb := w.DB.NewManagedWriteBatch()
					type kv struct {
						k string
						v model.Ver
					}
					var puts []kv
					for j := 0; j < 1+w.R.Intn(6); j++ {
						k := w.Keys[w.R.Intn(len(w.Keys))]
						ts := w.Discard + 1 + uint64(w.R.Int63n(int64(w.NextTs-w.Discard+2)))
						if mono {
							if vs := w.M.M[string(k)]; len(vs) > 0 && vs[0].Ts > ts {
								ts = vs[0].Ts + uint64(w.R.Intn(2))
							}
							for _, p := range puts {
								if p.k == string(k) && p.v.Ts > ts {
									ts = p.v.Ts
								}
							}
						}
						if w.R.Intn(4) == 0 {
							if err := wb.DeleteAt(append([]byte{}, k...), ts); err != nil {
								c.Violation("C36|batch-error", err.Error(), nil)
							}
							puts = append(puts, kv{string(k), model.Ver{Ts: ts, Del: true}})
						} else {
							tok := fmt.Sprintf("mb%d.%d.%d", i, len(w.Steps), j)
							if err := wb.SetEntryAt(badger.NewEntry(append([]byte{}, k...), gen.Expand(tok, 40)), ts); err != nil {
								c.Violation("C36|batch-error", err.Error(), nil)
							}
							puts = append(puts, kv{string(k), model.Ver{Ts: ts, Token: tok, Len: 40}})
						}
						if ts >= w.NextTs {
							w.NextTs = ts + 1
						}
					}
					if err := wb.Flush(); err != nil {
						c.Violation("C36|batch-flush-error", err.Error(), nil)
					} else {
						for _, p := range puts {
							w.M.Put(p.k, p.v)
						}
						c.Count("managed.batch_entries", int64(len(puts)))
					}
				}
			})
		c.Distinct(fmt.Sprintf("variant=%d|keepAll=%v|perKeyMonotone=%v", i%6, i%4 < 2, mono))
	}
	sr.mu.Lock()
	for k, v := range sr.shapes {
		c.Distinct("shape|" + k)
		c.Count("shape."+k, int64(v))
	}
	sr.mu.Unlock()
	if c.Counter("invariance.reads_checked") == 0 {
		c.Inconclusive("nothing checked")
	}
	c.Sample(map[string]any{"example": "CommitAt(ts) with ts drawn from (discardTs, newest+2]; NewTransactionAt(t) reads compared with model.Visible(k, t)"})
	c.Assume("timestamps are always above the current discard timestamp and SetDiscardTs never exceeds an open read timestamp (the managed-mode API contract)")
}
