package props

// E2: crash / power-loss engine. The workload runs in a child process; hook events (persistence
// events and schedule points of badger, tag verif) are counted and the child SIGKILLs itself at the
// chosen one (C08), or maintains a "durable image" of the directory - only what badger explicitly
// synced - and materialises it at chosen events (C10). Issue / acknowledge / commit-timestamp lines go
// to a side log outside the database directory with one write(2) each. A second child re-opens the
// directory and dumps what it finds; the parent compares the dump with the side log.

import (
	"bufio"
	"bytes"
	"crypto/sha256"
	"encoding/binary"
	"encoding/hex"
	"encoding/json"
	"errors"
	"fmt"
	"math/rand"
	"os"
	"os/exec"
	"path/filepath"
	"runtime"
	"sort"
	"strconv"
	"strings"
	"sync"
	"sync/atomic"
	"syscall"
	"time"

	badger "github.com/dgraph-io/badger/v4"
	"github.com/dgraph-io/badger/v4/verifhook"

	"verif/h/core"
	"verif/h/gen"
	"verif/h/hist"
)

// CrashSpec describes one child run.
type CrashSpec struct {
	Dir        string  `json:"dir"`
	Variant    int     `json:"variant"`
	OptSeed    int64   `json:"opt_seed"`
	EncKey     []byte  `json:"enc_key,omitempty"`
	Seed       int64   `json:"seed"`
	Family     string  `json:"family"` // deletes | gc | plain
	Clients    int     `json:"clients"`
	Txns       int     `json:"txns"` // per client
	SideLog    string  `json:"side_log"`
	KillAt     int64   `json:"kill_at"`    // kill at the N-th counted event (0: never)
	KillClass  string  `json:"kill_class"` // count only events of this class ("" = all)
	EndMode    string  `json:"end_mode"`   // kill | close
	SyncWrites bool    `json:"sync_writes"`
	ImageAt    []int64 `json:"image_at,omitempty"` // C10: materialise the durable image at these events
	ImageDir   string  `json:"image_dir,omitempty"`
	Compactors int     `json:"compactors"`
	// ManifestRewrite > 0: run the production MANIFEST rewrite (write MANIFEST-REWRITE, sync, rename
	// over MANIFEST, sync directory) every that many milliseconds during the workload
	ManifestRewrite int   `json:"manifest_rewrite,omitempty"`
	MemTable        int64 `json:"memtable"`
	// SeparateValueDir puts the value log into <dir>/vdir1 (its own directory lock and directory syncs)
	SeparateValueDir bool `json:"separate_value_dir,omitempty"`
	// BaseTableSize > 0 overrides the table size of the levels below 0 (tiny: one compaction writes
	// many tables, i.e. one long MANIFEST record); L0Tables > 0 overrides NumLevelZeroTables
	BaseTableSize int64 `json:"base_table_size,omitempty"`
	L0Tables      int   `json:"l0_tables,omitempty"`
}

func (s *CrashSpec) options() badger.Options {
	ov := hist.SmallOptions(s.Dir, s.Variant, rand.New(rand.NewSource(s.OptSeed)))
	o := ov.Opt
	if len(o.EncryptionKey) > 0 {
		o.EncryptionKey = s.EncKey
	}
	o.SyncWrites = s.SyncWrites
	if s.Compactors > 0 {
		o.NumCompactors = s.Compactors
	}
	if s.MemTable > 0 {
		o.MemTableSize = s.MemTable
	}
	o.ValueLogMaxEntries = 50
	if s.BaseTableSize > 0 {
		o.BaseTableSize = s.BaseTableSize
		o.ValueThreshold = 1 << 10 // values stay in the tables, so the tables are as big as the memtables
	}
	if s.L0Tables > 0 {
		o.NumLevelZeroTables = s.L0Tables
		o.NumLevelZeroTablesStall = s.L0Tables + 10
	}
	if s.SeparateValueDir && !o.InMemory {
		o.ValueDir = filepath.Join(s.Dir, "vdir1")
		_ = os.MkdirAll(o.ValueDir, 0o755)
	}
	return o
}

// ---- deterministic workload definition (shared by child and parent) ----

type crashOp struct {
	Key  []byte
	Del  bool
	Size int
	Tok  string
}

func crashKeys(seed int64) [][]byte {
	return gen.KeySet(rand.New(rand.NewSource(seed^0x5bd1e995)), 24, 8)
}

func crashRand(seed int64, client, seq int) *rand.Rand {
	h := sha256.Sum256([]byte(fmt.Sprintf("crash|%d|%d|%d", seed, client, seq)))
	return rand.New(rand.NewSource(int64(binary.BigEndian.Uint64(h[:8]) >> 1)))
}

// isBatchClient: the last client writes through WriteBatch to write-once keys.
func isBatchClient(s *CrashSpec, client int) bool { return client == s.Clients-1 }

func markerKey(client, seq int) []byte { return []byte(fmt.Sprintf("m!%d/%d", client, seq)) }

func batchKey(client, seq, j int) []byte { return []byte(fmt.Sprintf("w!%d/%d/%04d", client, seq, j)) }

// crashTxn returns the writes of transaction (client, seq), excluding the marker.
func crashTxn(s *CrashSpec, keys [][]byte, client, seq int) []crashOp {
	r := crashRand(s.Seed, client, seq)
	sizes := []int{24, 40, 63, 64, 65, 200, 900, 3000} // every size holds the token and its terminator
	if isBatchClient(s, client) {
		n := 3 + r.Intn(60)
		ops := make([]crashOp, n)
		for j := range ops {
			ops[j] = crashOp{Key: batchKey(client, seq, j), Size: sizes[r.Intn(len(sizes))], Tok: fmt.Sprintf("b%d.%d.%d", client, seq, j)}
		}
		return ops
	}
	n := 1 + r.Intn(4)
	ops := make([]crashOp, 0, n)
	used := map[string]bool{}
	for j := 0; j < n; j++ {
		k := keys[r.Intn(len(keys))]
		if used[string(k)] {
			continue
		}
		used[string(k)] = true
		op := crashOp{Key: k, Size: sizes[r.Intn(len(sizes))], Tok: fmt.Sprintf("t%d.%d.%d", client, seq, j)}
		if s.Family == "deletes" && r.Intn(5) == 0 {
			op.Del = true
		}
		ops = append(ops, op)
	}
	return ops
}

// ---- child: workload ----

func goid() int64 {
	var buf [64]byte
	n := runtime.Stack(buf[:], false)
	// "goroutine 123 ["
	f := strings.Fields(string(buf[:n]))
	if len(f) < 2 {
		return 0
	}
	v, _ := strconv.ParseInt(f[1], 10, 64)
	return v
}

type sideLog struct {
	mu sync.Mutex
	f  *os.File
}

func (l *sideLog) line(format string, a ...any) {
	s := fmt.Sprintf(format, a...) + "\n"
	l.mu.Lock()
	_, _ = l.f.Write([]byte(s))
	l.mu.Unlock()
}

func eventClass(op, path string) string {
	b := filepath.Base(path)
	kind := b
	switch {
	case path == "sst" || strings.HasSuffix(b, ".sst"):
		kind = "sst"
	case strings.HasSuffix(b, ".mem"):
		kind = "mem"
	case strings.HasSuffix(b, ".vlog"):
		kind = "vlog"
	case op == "syncdir":
		kind = "dir"
	case strings.HasPrefix(b, "MANIFEST"), strings.HasPrefix(b, "KEYREGISTRY"), b == "DISCARD":
	default:
		if strings.Contains(b, "KEYREGISTRY") || strings.Contains(b, "tmp") {
			kind = "KEYREGISTRY-tmp"
		}
	}
	return "fs." + op + "." + kind
}

// durable image (C10)
type imgFile struct {
	exists  bool   // directory entry is durable
	content []byte // bytes as of the last sync (nil: never synced)
	size    int64  // size when created (content of an unsynced file is zeros)
}

type dirOp struct {
	kind    string // create | unlink | rename
	path    string
	from    string
	content []byte
	hasSync bool
	size    int64
}

type image struct {
	mu      sync.Mutex
	files   map[string]*imgFile // durable view
	live    map[string]*imgFile // files created and not yet durable in their directory
	pending map[string][]dirOp
	lastTmp map[string]string // dir -> last synced non-final file (rename source)
}

func newImage() *image {
	return &image{files: map[string]*imgFile{}, live: map[string]*imgFile{}, pending: map[string][]dirOp{}, lastTmp: map[string]string{}}
}

func (im *image) lookup(path string) *imgFile {
	if f, ok := im.live[path]; ok {
		return f
	}
	return im.files[path]
}

func (im *image) fs(op, path string, off, n int64, dirOf func(string) string) {
	im.mu.Lock()
	defer im.mu.Unlock()
	if op == "unlink" && path == "sst" {
		path = filepath.Join(dirOf(""), fmt.Sprintf("%06d.sst", off))
	}
	dir := filepath.Dir(path)
	switch op {
	case "create":
		var sz int64
		if st, err := os.Stat(path); err == nil {
			sz = st.Size()
		}
		f := &imgFile{size: sz}
		im.live[path] = f
		im.pending[dir] = append(im.pending[dir], dirOp{kind: "create", path: path})
	case "sync":
		f := im.lookup(path)
		if f == nil {
			// a file whose creation was not reported (table files are reported at their first sync)
			f = &imgFile{}
			im.live[path] = f
			im.pending[dir] = append(im.pending[dir], dirOp{kind: "create", path: path})
		}
		if b, err := os.ReadFile(path); err == nil {
			f.content = b
		}
		base := filepath.Base(path)
		if base != "MANIFEST" && base != "KEYREGISTRY" && !strings.HasSuffix(base, ".mem") && !strings.HasSuffix(base, ".vlog") && !strings.HasSuffix(base, ".sst") {
			im.lastTmp[dir] = path
		}
	case "unlink":
		im.pending[dir] = append(im.pending[dir], dirOp{kind: "unlink", path: path})
	case "rename":
		from := im.lastTmp[dir]
		im.pending[dir] = append(im.pending[dir], dirOp{kind: "rename", path: path, from: from})
	case "syncdir":
		for _, o := range im.pending[path] {
			switch o.kind {
			case "create":
				if f, ok := im.live[o.path]; ok {
					f.exists = true
					im.files[o.path] = f
					delete(im.live, o.path)
				}
			case "unlink":
				delete(im.files, o.path)
				delete(im.live, o.path)
			case "rename":
				if f := im.lookup(o.from); f != nil {
					delete(im.files, o.from)
					delete(im.live, o.from)
					f.exists = true
					im.files[o.path] = f
				}
			}
		}
		delete(im.pending, path)
	}
}

// materialise writes the durable image of the database directories to dst. Files the hooks never
// reported (LOCK, DISCARD, a KEYREGISTRY created at first open) are copied as they are.
func (im *image) materialise(dirs []string, dst string) error {
	im.mu.Lock()
	defer im.mu.Unlock()
	tracked := map[string]bool{}
	for p := range im.files {
		tracked[p] = true
	}
	for p := range im.live {
		tracked[p] = true
	}
	for _, ops := range im.pending {
		for _, o := range ops {
			tracked[o.path] = true
			if o.from != "" {
				tracked[o.from] = true
			}
		}
	}
	for i, d := range dirs {
		out := dst
		if i > 0 {
			out = filepath.Join(dst, fmt.Sprintf("vdir%d", i))
		}
		if err := os.MkdirAll(out, 0o755); err != nil {
			return err
		}
		ents, _ := os.ReadDir(d)
		for _, e := range ents {
			p := filepath.Join(d, e.Name())
			if tracked[p] || e.IsDir() || e.Name() == "LOCK" {
				continue
			}
			if b, err := os.ReadFile(p); err == nil {
				_ = os.WriteFile(filepath.Join(out, e.Name()), b, 0o644)
			}
		}
		for p, f := range im.files {
			if filepath.Dir(p) != d || !f.exists {
				continue
			}
			b := f.content
			if b == nil {
				b = make([]byte, f.size)
			}
			if err := os.WriteFile(filepath.Join(out, filepath.Base(p)), b, 0o644); err != nil {
				return err
			}
		}
	}
	return nil
}

func imageDirs(opt badger.Options) []string {
	if opt.ValueDir != "" && opt.ValueDir != opt.Dir {
		return []string{opt.Dir, opt.ValueDir}
	}
	return []string{opt.Dir}
}

// ChildCrash runs the workload described by the spec file. Exit code 0 = workload ended (EndMode close).
func ChildCrash(specPath string) int {
	b, err := os.ReadFile(specPath)
	if err != nil {
		fmt.Println("spec:", err)
		return 3
	}
	var s CrashSpec
	if err := json.Unmarshal(b, &s); err != nil {
		fmt.Println("spec:", err)
		return 3
	}
	lf, err := os.OpenFile(s.SideLog, os.O_CREATE|os.O_WRONLY|os.O_APPEND, 0o644)
	if err != nil {
		fmt.Println("sidelog:", err)
		return 3
	}
	sl := &sideLog{f: lf}
	var count atomic.Int64
	var cur sync.Map // goid -> "client seq"
	opt := s.options()
	var im *image
	imageAt := map[int64]bool{}
	for _, n := range s.ImageAt {
		imageAt[n] = true
	}
	if len(s.ImageAt) > 0 {
		im = newImage()
	}
	die := func() {
		_ = syscall.Kill(os.Getpid(), syscall.SIGKILL)
		select {}
	}
	onEvent := func(class string) {
		if s.KillClass != "" && class != s.KillClass {
			return
		}
		n := count.Add(1)
		if s.KillAt == 0 && len(imageAt) == 0 {
			sl.line("e %d %s", n, class)
		}
		if imageAt[n] {
			// freeze: the side-log lock is held so that no acknowledgement can be logged between
			// taking the image and recording that it was taken
			sl.mu.Lock()
			err := im.materialise(imageDirs(opt), filepath.Join(s.ImageDir, strconv.FormatInt(n, 10)))
			msg := fmt.Sprintf("G %d %s\n", n, class)
			if err != nil {
				msg = fmt.Sprintf("Gerr %d %v\n", n, err)
			}
			_, _ = sl.f.Write([]byte(msg))
			sl.mu.Unlock()
		}
		if s.KillAt > 0 && n == s.KillAt {
			sl.line("E %d %s", n, class)
			die()
		}
	}
	verifhook.Set(&verifhook.Handlers{
		Point: func(name string) { onEvent("pt." + name) },
		Ev: func(name string, a, bb uint64) {
			if name == "commit.begin" {
				if v, ok := cur.Load(goid()); ok {
					sl.line("T %s %d", v.(string), a)
				}
			}
		},
		FS: func(op, path string, off, n int64) {
			if im != nil {
				im.fs(op, path, off, n, func(string) string { return opt.Dir })
			}
			onEvent(eventClass(op, path))
		},
	})
	db, err := badger.Open(opt)
	if err != nil {
		sl.line("X open %v", err)
		return 4
	}
	keys := crashKeys(s.Seed)
	var wg, gcwg, barrier1 sync.WaitGroup
	barrier1.Add(s.Clients)
	barrier2 := make(chan struct{})
	stop := make(chan struct{})
	for cl := 0; cl < s.Clients; cl++ {
		wg.Add(1)
		go func(cl int) {
			defer wg.Done()
			id := goid()
			for seq := 0; seq < s.Txns; seq++ {
				if s.Family == "dropall" && seq == s.Txns/2 {
					// phase A ends: all clients meet, client 0 runs DropAll, phase B starts
					barrier1.Done()
					barrier1.Wait()
					if cl == 0 {
						sl.line("DS all")
						if err := db.DropAll(); err == nil {
							sl.line("DE all ok")
						} else {
							sl.line("DE all err %v", err)
						}
						close(barrier2)
					}
					<-barrier2
				}
				ops := crashTxn(&s, keys, cl, seq)
				tag := fmt.Sprintf("%d %d", cl, seq)
				if isBatchClient(&s, cl) {
					sl.line("I %s", tag)
					wb := db.NewWriteBatch()
					var err error
					for _, o := range ops {
						if err = wb.Set(o.Key, gen.Expand(o.Tok, o.Size)); err != nil {
							break
						}
					}
					if err == nil {
						err = wb.Flush()
					} else {
						wb.Cancel()
					}
					if err == nil {
						sl.line("A %s", tag)
					} else {
						sl.line("R %s %v", tag, err)
					}
					continue
				}
				txn := db.NewTransaction(true)
				var err error
				for _, o := range ops {
					if o.Del {
						err = txn.Delete(o.Key)
					} else {
						err = txn.Set(o.Key, gen.Expand(o.Tok, o.Size))
					}
					if err != nil {
						break
					}
				}
				if err == nil {
					err = txn.Set(markerKey(cl, seq), []byte(tag))
				}
				if err != nil {
					txn.Discard()
					sl.line("R %s %v", tag, err)
					continue
				}
				sl.line("I %s", tag)
				cur.Store(id, tag)
				if crashRand(s.Seed, cl, seq).Intn(4) == 0 {
					done := make(chan error, 1)
					// the callback runs on another goroutine; the timestamp is taken on this one
					txn.CommitWith(func(e error) { done <- e })
					err = <-done
				} else {
					err = txn.Commit()
				}
				cur.Delete(id)
				if err == nil {
					sl.line("A %s", tag)
				} else {
					sl.line("R %s %v", tag, err)
				}
				txn.Discard()
			}
		}(cl)
	}
	if s.ManifestRewrite > 0 {
		// the production rewrite (threshold: 10000 deletions and ten times the live tables) is run on
		// demand every few milliseconds, concurrently with the flushes and compactions that append
		gcwg.Add(1)
		go func() {
			defer gcwg.Done()
			for {
				select {
				case <-stop:
					return
				case <-time.After(time.Duration(s.ManifestRewrite) * time.Millisecond):
				}
				if err := db.VerifRewriteManifest(); err != nil {
					sl.line("X manifest rewrite %v", err)
					return
				}
			}
		}()
	}
	if s.Family == "drops" {
		gcwg.Add(1)
		go func() {
			defer gcwg.Done()
			r := rand.New(rand.NewSource(s.Seed ^ 77))
			for {
				select {
				case <-stop:
					return
				case <-time.After(time.Duration(4+r.Intn(20)) * time.Millisecond):
				}
				k := keys[r.Intn(len(keys))]
				p := k[:1+r.Intn(min(2, len(k)))]
				sl.line("DS %s", hex.EncodeToString(p))
				if err := db.DropPrefix(p); err == nil {
					sl.line("DE %s ok", hex.EncodeToString(p))
				} else {
					sl.line("DE %s err %v", hex.EncodeToString(p), err)
				}
			}
		}()
	}
	if s.Family == "seq" {
		for g := 0; g < 3; g++ {
			gcwg.Add(1)
			go func(g int) {
				defer gcwg.Done()
				r := rand.New(rand.NewSource(s.Seed ^ int64(1000+g)))
				// GetSequence / Next may fail with ErrConflict when several objects renew the lease at
				// once: an error hands out nothing, the caller retries
				get := func() *badger.Sequence {
					for try := 0; try < 200; try++ {
						if q, err := db.GetSequence([]byte("s!eq"), uint64(1+r.Intn(5))); err == nil {
							return q
						}
						time.Sleep(200 * time.Microsecond)
					}
					return nil
				}
				seq := get()
				if seq == nil {
					sl.line("seq-unavailable %d", g)
					return
				}
				for {
					select {
					case <-stop:
						_ = seq.Release()
						return
					default:
					}
					n, err := seq.Next()
					if err == nil {
						sl.line("N %d %d", g, n)
					}
					if r.Intn(40) == 0 {
						_ = seq.Release()
						if seq = get(); seq == nil {
							return
						}
					}
					if r.Intn(3) == 0 {
						time.Sleep(time.Duration(r.Intn(300)) * time.Microsecond)
					}
				}
			}(g)
		}
	}
	if s.Family == "gc" {
		gcwg.Add(1)
		go func() {
			defer gcwg.Done()
			r := rand.New(rand.NewSource(s.Seed))
			for {
				select {
				case <-stop:
					return
				case <-time.After(time.Duration(3+r.Intn(15)) * time.Millisecond):
				}
				if err := db.RunValueLogGC([]float64{0.01, 0.2, 0.5}[r.Intn(3)]); err == nil {
					sl.line("gc ok")
				}
			}
		}()
	}
	wg.Wait()
	close(stop)
	gcwg.Wait()
	sl.line("END %d", count.Load())
	if s.EndMode == "close" {
		if err := db.Close(); err != nil {
			sl.line("X close %v", err)
			return 5
		}
		sl.line("CLOSED")
		if im != nil {
			sl.mu.Lock()
			if err := im.materialise(imageDirs(opt), filepath.Join(s.ImageDir, "0")); err == nil {
				_, _ = sl.f.Write([]byte("G 0 after-close\n"))
			}
			sl.mu.Unlock()
		}
		return 0
	}
	die()
	return 0
}

// ---- parent side ----

type sideInfo struct {
	issued           map[string]bool
	acked            map[string]bool
	rejected         map[string]string
	ts               map[string]uint64
	killed           string // class of the killing event
	killN            int64
	events           []string // classes in order (counting run)
	ended            bool
	closed           bool
	images           []int64 // image event numbers in log order
	ackedBeforeImage map[int64]map[string]bool
	imageClass       map[int64]string
	// line positions (order in the side log) of issue and acknowledgement lines
	iPos, aPos map[string]int
	drops      []dropRec
	seqNums    []crashSeqNum
	fatal      string
}

func parseSideLog(path string) *sideInfo {
	si := &sideInfo{issued: map[string]bool{}, acked: map[string]bool{}, rejected: map[string]string{}, ts: map[string]uint64{}, ackedBeforeImage: map[int64]map[string]bool{}, imageClass: map[int64]string{}, iPos: map[string]int{}, aPos: map[string]int{}}
	b, err := os.ReadFile(path)
	if err != nil {
		return si
	}
	// ignore a torn final line
	if i := bytes.LastIndexByte(b, '\n'); i >= 0 {
		b = b[:i+1]
	} else {
		b = nil
	}
	sc := bufio.NewScanner(bytes.NewReader(b))
	sc.Buffer(make([]byte, 1<<20), 1<<20)
	line := 0
	for sc.Scan() {
		f := strings.Fields(sc.Text())
		line++
		if len(f) == 0 {
			continue
		}
		switch f[0] {
		case "DS":
			if len(f) >= 2 {
				p, _ := hex.DecodeString(f[1])
				si.drops = append(si.drops, dropRec{prefix: p, start: line, all: f[1] == "all"})
			}
		case "DE":
			if n := len(si.drops); n > 0 && len(f) >= 3 {
				si.drops[n-1].end = line
				si.drops[n-1].ok = f[2] == "ok"
			}
		case "N":
			if len(f) >= 3 {
				cl, _ := strconv.Atoi(f[1])
				v, _ := strconv.ParseUint(f[2], 10, 64)
				si.seqNums = append(si.seqNums, crashSeqNum{cl, v})
			}
		case "I", "A", "R", "T":
			if len(f) < 3 {
				continue
			}
			id := f[1] + " " + f[2]
			switch f[0] {
			case "I":
				si.issued[id] = true
				si.iPos[id] = line
			case "A":
				si.acked[id] = true
				si.aPos[id] = line
			case "R":
				si.rejected[id] = strings.Join(f[3:], " ")
			case "T":
				if len(f) >= 4 {
					v, _ := strconv.ParseUint(f[3], 10, 64)
					si.ts[id] = v
				}
			}
		case "e":
			if len(f) >= 3 {
				si.events = append(si.events, f[2])
			}
		case "E":
			if len(f) >= 3 {
				si.killN, _ = strconv.ParseInt(f[1], 10, 64)
				si.killed = f[2]
			}
		case "G":
			n, _ := strconv.ParseInt(f[1], 10, 64)
			si.images = append(si.images, n)
			if len(f) >= 3 {
				si.imageClass[n] = f[2]
			}
			m := map[string]bool{}
			for k := range si.acked {
				m[k] = true
			}
			si.ackedBeforeImage[n] = m
		case "END":
			si.ended = true
		case "CLOSED":
			si.closed = true
		case "X", "Gerr":
			si.fatal = sc.Text()
		}
	}
	return si
}

// dropRec is one DropPrefix call seen in the side log.
type dropRec struct {
	prefix     []byte
	start, end int // line positions; end = 0 when the call never returned (crash inside the drop)
	ok         bool
	all        bool // DropAll
}

type crashSeqNum struct {
	client int
	num    uint64
}

// VerifyDump is what the verifier child prints.
type VerifyDump struct {
	OpenErr    string              `json:"open_err,omitempty"`
	Items      map[string]dumpItem `json:"items"` // hex key -> item
	Problems   []core.Collected    `json:"problems,omitempty"`
	CloseErr   string              `json:"close_err,omitempty"`
	ReopenErr  string              `json:"reopen_err,omitempty"`
	MaxVersion uint64              `json:"max_version"`
	SeqNext    []uint64            `json:"seq_next,omitempty"` // numbers a new Sequence hands out after recovery
	SeqErr     string              `json:"seq_err,omitempty"`
}

type dumpItem struct {
	Tok string `json:"tok"` // token prefix of the value (up to '|') or "#<digest>"
	Len int    `json:"len"`
	Ver uint64 `json:"ver"`
	Err string `json:"err,omitempty"`
	OK  bool   `json:"ok"` // value equals Expand(tok, len)
}

// ChildVerify re-opens the directory of the spec and prints a VerifyDump as one JSON line prefixed by DUMP.
func ChildVerify(specPath string) int {
	b, err := os.ReadFile(specPath)
	if err != nil {
		return 3
	}
	var s CrashSpec
	if err := json.Unmarshal(b, &s); err != nil {
		return 3
	}
	opt := s.options()
	// quiescent verification: no compactors, and no L0 stall either (the memtables replayed from the
	// WALs are flushed by Open's background flusher, which would otherwise wait for a compaction forever)
	opt.NumCompactors = 0
	opt.NumLevelZeroTablesStall = 1 << 20
	var d VerifyDump
	d.Items = map[string]dumpItem{}
	out := func() int {
		j, _ := json.Marshal(d)
		fmt.Printf("DUMP %s\n", j)
		return 0
	}
	db, err := badger.Open(opt)
	if err != nil {
		d.OpenErr = err.Error()
		return out()
	}
	err = db.View(func(txn *badger.Txn) error {
		it := txn.NewIterator(badger.DefaultIteratorOptions)
		defer it.Close()
		for it.Rewind(); it.Valid(); it.Next() {
			item := it.Item()
			di := dumpItem{Ver: item.Version()}
			v, err := item.ValueCopy(nil)
			if err != nil {
				di.Err = err.Error()
			} else {
				di.Len = len(v)
				if i := bytes.IndexByte(v, '|'); i > 0 && i < 40 {
					di.Tok = string(v[:i])
					di.OK = bytes.Equal(v, gen.Expand(di.Tok, len(v)))
				} else {
					h := sha256.Sum256(v)
					di.Tok = "#" + hex.EncodeToString(h[:6])
					if len(v) < 40 {
						di.Tok = "=" + string(v)
					}
				}
			}
			d.Items[hex.EncodeToString(item.KeyCopy(nil))] = di
		}
		return nil
	})
	if err != nil {
		d.Problems = append(d.Problems, core.Collected{Sig: "scan-error", What: err.Error()})
	}
	cc := core.NewCollector("verify")
	if !db.VerifWaitFlushed(60 * time.Second) {
		d.Problems = append(d.Problems, core.Collected{Sig: "flush-after-recovery-did-not-finish", What: "memtables recovered from the WALs were not flushed within 60 s"})
	}
	checkStructure(cc, "structure", db, opt, true, func() map[string]any { return nil })
	d.MaxVersion = maxStoredVersion(db)
	checkNewCommitAbove(cc, "ts", db, []byte("m!probe"), "probe", nil)
	d.Problems = append(d.Problems, cc.Collected()...)
	if s.Family == "seq" {
		if seq, err := db.GetSequence([]byte("s!eq"), 3); err != nil {
			d.SeqErr = err.Error()
		} else {
			for i := 0; i < 7; i++ {
				n, err := seq.Next()
				if err != nil {
					d.SeqErr = err.Error()
					break
				}
				d.SeqNext = append(d.SeqNext, n)
			}
			_ = seq.Release()
		}
	}
	if err := db.Close(); err != nil {
		d.CloseErr = err.Error()
		return out()
	}
	// recovery must be repeatable: open once more
	db, err = badger.Open(opt)
	if err != nil {
		d.ReopenErr = err.Error()
		return out()
	}
	_ = db.Close()
	return out()
}

func selfExe() string {
	p, err := os.Executable()
	if err != nil {
		return os.Args[0]
	}
	return p
}

// runChild runs this binary in a child role with a wall-clock cap; returns combined output and whether it timed out.
func runChild(timeout time.Duration, prefix []string, args ...string) (string, bool, int) {
	argv := append(append([]string{}, prefix...), selfExe())
	argv = append(argv, args...)
	cmd := exec.Command(argv[0], argv[1:]...)
	var buf bytes.Buffer
	cmd.Stdout, cmd.Stderr = &buf, &buf
	cmd.Env = append(os.Environ(), "GOTRACEBACK=all")
	if err := cmd.Start(); err != nil {
		return err.Error(), false, -1
	}
	done := make(chan error, 1)
	go func() { done <- cmd.Wait() }()
	select {
	case err := <-done:
		code := 0
		if err != nil {
			code = -1
			var ee *exec.ExitError
			if errors.As(err, &ee) {
				code = ee.ExitCode()
			}
		}
		return buf.String(), false, code
	case <-time.After(timeout):
		_ = cmd.Process.Signal(syscall.SIGQUIT)
		select {
		case <-done:
		case <-time.After(5 * time.Second):
			_ = cmd.Process.Kill()
			<-done
		}
		return buf.String(), true, -1
	}
}

func writeSpec(s *CrashSpec, path string) {
	b, _ := json.MarshalIndent(s, "", " ")
	_ = os.WriteFile(path, b, 0o644)
}

// verifyRecovered runs the verifier child on spec.Dir and applies the C08 oracle.
// acked: transactions that must be present. Returns false if the verdict could not be reached.
func verifyRecovered(c *core.Ctx, sig string, s *CrashSpec, specPath string, si *sideInfo, acked map[string]bool, wit map[string]any) bool {
	return verifyRecoveredOpts(c, sig, s, specPath, si, acked, wit, verifyOpts{})
}

// verifyOpts tightens or relaxes the oracle for the torn-tail cases (C09).
type verifyOpts struct {
	exact         map[string]bool // the recovered set must be exactly this
	subsetOf      map[string]bool // the recovered set must be a subset of this ...
	maxMissing    int             // ... with at most this many members missing
	valueErrorsOK bool            // a read that reports an error is acceptable (the value's record is damaged)
	// value-log damage: badger deliberately returns an empty value and no error when a value's record
	// cannot be read ("Don't return error if we cannot read the value. Just log the error."). That is
	// not "the damaged record's contents returned as data", so it is accepted - but only for values
	// whose record lies in the damaged part (by key when the file is plain, by count otherwise).
	emptyOKKeys map[string]bool
	maxEmpty    int
	// out, when set, receives the verifier's dump (C30 reads the sequence numbers from it)
	out        *VerifyDump
	noBatchAck bool
}

func verifyRecoveredOpts(c *core.Ctx, sig string, s *CrashSpec, specPath string, si *sideInfo, acked map[string]bool, wit map[string]any, vo verifyOpts) bool {
	out, timedOut, _ := runChild(120*time.Second, nil, c.ID, "--child-verify", specPath)
	if timedOut {
		c.Inconclusive("verifier child timed out (" + fmt.Sprint(wit["case"]) + ")")
		return false
	}
	var d VerifyDump
	found := false
	for _, ln := range strings.Split(out, "\n") {
		if strings.HasPrefix(ln, "DUMP ") {
			if json.Unmarshal([]byte(ln[5:]), &d) == nil {
				found = true
			}
		}
	}
	w := func(extra map[string]any) map[string]any {
		m := map[string]any{}
		for k, v := range wit {
			m[k] = v
		}
		for k, v := range extra {
			m[k] = v
		}
		return m
	}
	if !found {
		tail := out
		if len(tail) > 6000 {
			tail = tail[:3000] + "\n...\n" + tail[len(tail)-3000:]
		}
		kind := "died"
		if strings.Contains(out, "BADGER-ASSERT-FAILED") {
			kind = "assertion"
		} else if strings.Contains(out, "panic:") {
			kind = "panic"
		}
		c.Violation(sig+"|open-"+kind, "re-opening the database after the crash killed the process ("+kind+")", w(map[string]any{"output": tail}))
		return true
	}
	if vo.out != nil {
		*vo.out = d
	}
	if d.OpenErr != "" {
		c.Violation(sig+"|open-error|"+errClass(d.OpenErr), "Open after the crash fails: "+d.OpenErr, w(map[string]any{"files": listDir(s.Dir)}))
		return true
	}
	c.Count("crash.reopened", 1)
	if d.CloseErr != "" {
		c.Violation(sig+"|close-error-after-recovery", d.CloseErr, w(nil))
	}
	if d.ReopenErr != "" {
		c.Violation(sig+"|second-open-error|"+errClass(d.ReopenErr), "the second Open after recovery fails: "+d.ReopenErr, w(nil))
	}
	for _, p := range d.Problems {
		c.Violation(sig+"|"+p.Sig, p.What, w(nil))
	}
	keys := crashKeys(s.Seed)
	// DropAll in the workload (family dropall: phase A, DropAll, phase B)
	var da *dropRec
	for i := range si.drops {
		if si.drops[i].all {
			da = &si.drops[i]
		}
	}
	preDrop := map[string]bool{}
	if da != nil {
		for id, p := range si.iPos {
			if p < da.start {
				preDrop[id] = true
			}
		}
		if da.end == 0 || !da.ok {
			verifyInsideDropAll(c, sig, s, si, &d, keys, preDrop, w)
			return true
		}
		c.Count("crash.dropall_completed_cases", 1)
		a2 := map[string]bool{}
		for id := range acked {
			if !preDrop[id] {
				a2[id] = true
			}
		}
		acked = a2
	}
	// S = transactions whose marker is visible
	type member struct {
		id     string
		cl, sq int
		ts     uint64
	}
	var S []member
	inS := map[string]bool{}
	for hk, it := range d.Items {
		k, _ := hex.DecodeString(hk)
		if !bytes.HasPrefix(k, []byte("m!")) || string(k) == "m!probe" {
			continue
		}
		var cl, sq int
		if _, err := fmt.Sscanf(string(k), "m!%d/%d", &cl, &sq); err != nil {
			continue
		}
		id := fmt.Sprintf("%d %d", cl, sq)
		if preDrop[id] {
			c.Violation(sig+"|dropall|pre-drop-commit-visible", fmt.Sprintf("transaction %s was committed before DropAll was called and DropAll returned, but its marker is visible", id), w(map[string]any{"txn": id}))
			continue
		}
		S = append(S, member{id, cl, sq, it.Ver})
		inS[id] = true
		if !si.issued[id] {
			c.Violation(sig+"|marker-of-unissued-commit", "a marker is visible for a transaction whose Commit was never called: "+id, w(nil))
		}
	}
	sort.Slice(S, func(i, j int) bool { return S[i].ts < S[j].ts })
	c.Count("crash.recovered_txns", int64(len(S)))
	if vo.exact != nil {
		for _, m := range S {
			if !vo.exact[m.id] {
				c.Violation(sig+"|recovered-a-record-after-the-damage", fmt.Sprintf("transaction %s (ts %d) is visible although its end marker is not wholly before the damaged offset", m.id, m.ts), w(map[string]any{"txn": m.id}))
			}
		}
		for id := range vo.exact {
			if !inS[id] {
				c.Violation(sig+"|lost-an-intact-record", fmt.Sprintf("transaction %s lies wholly before the damaged offset (or in another file) but is not visible", id), w(map[string]any{"txn": id}))
			}
		}
	}
	if vo.subsetOf != nil {
		missing := 0
		for id := range vo.subsetOf {
			if !inS[id] {
				missing++
			}
		}
		for _, m := range S {
			if !vo.subsetOf[m.id] {
				c.Violation(sig+"|recovered-a-record-after-the-damage", fmt.Sprintf("transaction %s is visible but was not in the undamaged image", m.id), w(nil))
			}
		}
		if missing > vo.maxMissing {
			c.Violation(sig+"|lost-an-intact-record", fmt.Sprintf("%d transactions of the undamaged image are missing, only %d end markers lie behind the damaged offset", missing, vo.maxMissing), w(nil))
		}
	}
	// distinct timestamps
	for i := 1; i < len(S); i++ {
		if S[i].ts == S[i-1].ts {
			c.Violation(sig+"|duplicate-commit-ts", fmt.Sprintf("transactions %s and %s both have version %d", S[i-1].id, S[i].id, S[i].ts), w(nil))
		}
	}
	// every acknowledged commit survives
	nack := 0
	for id := range acked {
		cl, _ := strconv.Atoi(strings.Fields(id)[0])
		if isBatchClient(s, cl) {
			continue
		}
		nack++
		if !inS[id] {
			c.Violation(sig+"|acked-commit-lost", fmt.Sprintf("transaction %s was acknowledged (Commit returned nil) before the crash but is not visible after recovery", id), w(map[string]any{"txn": id}))
		}
	}
	c.Count("crash.acked_checked", int64(nack))
	// commit-order prefix: no lost transaction below a surviving one
	var maxTs uint64
	var maxID string
	for _, m := range S {
		if m.ts > maxTs {
			maxTs, maxID = m.ts, m.id
		}
	}
	// A commit whose call had not returned when the process died (neither an A nor an R line) and
	// whose lifetime overlaps a DropPrefix/DropAll window may have been refused with ErrBlockedWrites
	// after its timestamp was assigned - the refusal just was not logged any more. It is not a hole in
	// the commit order.
	maybeRefused := func(id string) bool {
		if si.acked[id] || si.rejected[id] != "" {
			return false
		}
		for _, d := range si.drops {
			if d.end == 0 || d.end > si.iPos[id] {
				return true
			}
		}
		return false
	}
	for id, ts := range si.ts {
		if !inS[id] && ts < maxTs && si.rejected[id] == "" && !preDrop[id] {
			if maybeRefused(id) {
				c.Count("crash.unreturned_commits_overlapping_a_drop", 1)
				continue
			}
			c.Violation(sig+"|not-a-commit-order-prefix", fmt.Sprintf("transaction %s (commit ts %d) is lost although %s (commit ts %d) survived", id, ts, maxID, maxTs), w(map[string]any{"lost": id, "lost_ts": ts, "survivor": maxID, "survivor_ts": maxTs}))
			break
		}
	}
	for _, m := range S {
		if ts, ok := si.ts[m.id]; ok && ts != m.ts {
			c.Violation(sig+"|marker-version-differs-from-commit-ts", fmt.Sprintf("transaction %s committed at %d but its marker has version %d", m.id, ts, m.ts), w(nil))
		}
	}
	// expected state = S applied in commit order
	type exp struct {
		tok  string
		size int
		del  bool
		ts   uint64
		id   string
	}
	// DropPrefix calls of the workload: a key carrying a dropped prefix may legitimately be absent.
	// dropState(k, writer) = "must-absent" when the writer was acknowledged before a completed drop
	// covering k was called, "either" when a drop covering k overlaps the writer or never returned,
	// "" when every drop covering k had returned before the writer was issued (or none covers k).
	dropState := func(k []byte, writer string) string {
		st := ""
		for _, dr := range si.drops {
			if dr.all || !bytes.HasPrefix(k, dr.prefix) {
				continue
			}
			ip, ap := si.iPos[writer], si.aPos[writer]
			switch {
			case dr.end != 0 && !dr.ok:
				// refused (ErrBlockedWrites): no effect
			case dr.end != 0 && ip > dr.end:
				// writer issued after the drop returned
			case dr.end != 0 && ap != 0 && ap < dr.start:
				return "must-absent"
			default:
				st = "either"
			}
		}
		return st
	}
	want := map[string]exp{}
	for _, m := range S {
		for _, o := range crashTxn(s, keys, m.cl, m.sq) {
			want[hex.EncodeToString(o.Key)] = exp{o.Tok, o.Size, o.Del, m.ts, m.id}
		}
	}
	mism := 0
	empties := 0
	emptyOK := func(hk string, it dumpItem) bool {
		if !vo.valueErrorsOK || it.Err != "" || it.Len != 0 {
			return false
		}
		if vo.emptyOKKeys != nil && !vo.emptyOKKeys[hk] {
			return false
		}
		empties++
		c.Count("crash.values_lost_silently_accepted", 1)
		return true
	}
	defer func() {
		if vo.valueErrorsOK && empties > vo.maxEmpty {
			c.Violation(sig+"|state|more-empty-values-than-damaged-records", fmt.Sprintf("%d values read back empty, only %d value-log records lie behind the damaged offset", empties, vo.maxEmpty), w(nil))
		}
	}()
	for _, k := range keys {
		hk := hex.EncodeToString(k)
		e, has := want[hk]
		it, got := d.Items[hk]
		c.Count("crash.keys_compared", 1)
		if has && !e.del && len(si.drops) > 0 {
			switch dropState(k, e.id) {
			case "must-absent":
				c.Count("crash.drop_keys_must_be_absent", 1)
				if got {
					c.Violation(sig+"|state|dropped-key-visible", fmt.Sprintf("key %s: its newest writer %s was acknowledged before a DropPrefix covering the key was called and returned, but the key is visible (%s, version %d)", hk, e.id, it.Tok, it.Ver), w(map[string]any{"key": hk}))
				}
				continue
			case "either":
				c.Count("crash.drop_keys_either", 1)
				if !got {
					continue // pre-drop value or absent
				}
			}
		}
		switch {
		case (!has || e.del) && got:
			mism++
			c.Violation(sig+"|state|unexpected-key", fmt.Sprintf("key %s is visible (%s, version %d) but the recovered commit prefix leaves it absent (last writer %q)", hk, it.Tok, it.Ver, e.id), w(map[string]any{"key": hk}))
		case has && !e.del && !got:
			mism++
			c.Violation(sig+"|state|missing-key", fmt.Sprintf("key %s written by recovered transaction %s (ts %d) is not visible: the transaction is partially visible", hk, e.id, e.ts), w(map[string]any{"key": hk, "txn": e.id}))
		case has && !e.del && got:
			if it.Err != "" && vo.valueErrorsOK {
				c.Count("crash.value_read_errors_accepted", 1)
			} else if it.Err != "" {
				c.Violation(sig+"|state|value-read-error", fmt.Sprintf("key %s: %s", hk, it.Err), w(map[string]any{"key": hk}))
			} else if it.Ver == e.ts && emptyOK(hk, it) {
			} else if it.Tok != e.tok || it.Len != e.size || !it.OK || it.Ver != e.ts {
				mism++
				kind := "other-write"
				if it.Tok == e.tok {
					kind = "damaged-value"
				}
				c.Violation(sig+"|state|"+kind, fmt.Sprintf("key %s: recovered prefix implies %s (len %d, ts %d) but the database returns %s (len %d, version %d, intact=%v)", hk, e.tok, e.size, e.ts, it.Tok, it.Len, it.Ver, it.OK), w(map[string]any{"key": hk}))
			}
		}
	}
	// write batches: acknowledged => all entries; otherwise the present entries form a prefix in call order
	for cl := 0; cl < s.Clients; cl++ {
		if !isBatchClient(s, cl) {
			continue
		}
		for sq := 0; sq < s.Txns; sq++ {
			id := fmt.Sprintf("%d %d", cl, sq)
			ops := crashTxn(s, keys, cl, sq)
			present := 0
			gap := false
			for j, o := range ops {
				it, got := d.Items[hex.EncodeToString(o.Key)]
				if got {
					if present != j {
						gap = true
					}
					present++
					if it.Err != "" && vo.valueErrorsOK {
						c.Count("crash.value_read_errors_accepted", 1)
					} else if emptyOK(hex.EncodeToString(o.Key), it) {
					} else if it.Err != "" || it.Tok != o.Tok || it.Len != o.Size || !it.OK {
						c.Violation(sig+"|batch|damaged-value", fmt.Sprintf("batch %s entry %d: want %s len %d, got %s len %d err=%q", id, j, o.Tok, o.Size, it.Tok, it.Len, it.Err), w(nil))
					}
				}
			}
			if present > 0 && preDrop[id] {
				c.Violation(sig+"|dropall|pre-drop-batch-visible", fmt.Sprintf("WriteBatch %s was written before a completed DropAll, %d entries are visible", id, present), w(nil))
				continue
			}
			if present > 0 && !si.issued[id] {
				c.Violation(sig+"|batch|unissued", "entries of a batch that was never started are visible: "+id, w(nil))
			}
			if acked[id] && present != len(ops) {
				c.Violation(sig+"|batch|acked-flush-lost", fmt.Sprintf("WriteBatch %s was flushed successfully before the crash, %d of %d entries are visible", id, present, len(ops)), w(nil))
			}
			if gap && si.rejected[id] == "" && (len(si.drops) == 0 || acked[id]) {
				// (a Flush that returned an error - e.g. ErrBlockedWrites during a drop - gives no
				// ordering guarantee for the internal transactions that were already in flight; with
				// drops in the workload the same holds for a Flush that had not returned yet when
				// the process was killed)
				c.Violation(sig+"|batch|not-a-prefix", fmt.Sprintf("WriteBatch %s: the visible entries are not a prefix of the entries in call order", id), w(nil))
			}
			if acked[id] {
				c.Count("crash.acked_batches_checked", 1)
			}
		}
	}
	// nothing else is visible
	known := map[string]bool{"6d2170726f6265": true}
	for _, k := range keys {
		known[hex.EncodeToString(k)] = true
	}
	for hk := range d.Items {
		k, _ := hex.DecodeString(hk)
		if known[hk] || bytes.HasPrefix(k, []byte("m!")) || bytes.HasPrefix(k, []byte("w!")) {
			continue
		}
		c.Violation(sig+"|state|foreign-key", "a key nobody wrote is visible: "+hk, w(nil))
	}
	_ = mism
	return true
}

func errClass(e string) string {
	for _, k := range []string{"Create a new file", "checksum", "MANIFEST", "file does not exist", "truncate", "Value log", "EOF", "no such file", "key registry", "Encryption"} {
		if strings.Contains(e, k) {
			return strings.ReplaceAll(strings.ToLower(k), " ", "-")
		}
	}
	return "other"
}

func listDir(dir string) []string {
	var out []string
	ents, _ := os.ReadDir(dir)
	for _, e := range ents {
		if fi, err := e.Info(); err == nil {
			out = append(out, fmt.Sprintf("%s %d", e.Name(), fi.Size()))
		}
	}
	return out
}

// verifyInsideDropAll: the process died inside DropAll. Every key holds its pre-drop value or is absent.
func verifyInsideDropAll(c *core.Ctx, sig string, s *CrashSpec, si *sideInfo, d *VerifyDump, keys [][]byte, preDrop map[string]bool, w func(map[string]any) map[string]any) {
	c.Count("crash.dropall_killed_inside_cases", 1)
	type wr struct {
		tok  string
		size int
		del  bool
		ts   uint64
		id   string
	}
	type txn struct {
		id     string
		cl, sq int
		ts     uint64
	}
	var A []txn
	for id := range preDrop {
		var cl, sq int
		fmt.Sscanf(id, "%d %d", &cl, &sq)
		if isBatchClient(s, cl) || si.rejected[id] != "" {
			continue
		}
		A = append(A, txn{id, cl, sq, si.ts[id]})
	}
	sort.Slice(A, func(i, j int) bool { return A[i].ts < A[j].ts })
	model := map[string]wr{}
	for _, t := range A {
		for _, o := range crashTxn(s, keys, t.cl, t.sq) {
			model[hex.EncodeToString(o.Key)] = wr{o.Tok, o.Size, o.Del, t.ts, t.id}
		}
	}
	for _, k := range keys {
		hk := hex.EncodeToString(k)
		it, got := d.Items[hk]
		if !got {
			continue
		}
		c.Count("crash.dropall_surviving_keys_checked", 1)
		m, has := model[hk]
		if !has || m.del || it.Err != "" || it.Tok != m.tok || it.Len != m.size || !it.OK || it.Ver != m.ts {
			c.Violation(sig+"|dropall|key-neither-pre-drop-value-nor-absent", fmt.Sprintf("key %s after a crash inside DropAll: database returns %s (len %d, version %d, err %q), pre-drop value is %s (len %d, ts %d, deleted=%v)", hk, it.Tok, it.Len, it.Ver, it.Err, m.tok, m.size, m.ts, m.del), w(map[string]any{"key": hk}))
		}
	}
	for hk, it := range d.Items {
		k, _ := hex.DecodeString(hk)
		switch {
		case bytes.HasPrefix(k, []byte("m!")):
			var cl, sq int
			if _, err := fmt.Sscanf(string(k), "m!%d/%d", &cl, &sq); err == nil && string(k) != "m!probe" && !preDrop[fmt.Sprintf("%d %d", cl, sq)] {
				c.Violation(sig+"|dropall|marker-of-unissued-commit", "marker of a transaction that was not committed before DropAll: "+string(k), w(nil))
			}
		case bytes.HasPrefix(k, []byte("w!")):
			var cl, sq, j int
			if _, err := fmt.Sscanf(string(k), "w!%d/%d/%d", &cl, &sq, &j); err == nil {
				ops := crashTxn(s, keys, cl, sq)
				if j >= len(ops) || it.Err != "" || it.Tok != ops[j].Tok || it.Len != ops[j].Size || !it.OK {
					c.Violation(sig+"|dropall|batch-value-differs", "batch entry "+string(k)+" differs from what was written", w(nil))
				}
			}
		}
	}
}
