package props

import (
	"encoding/binary"
	"encoding/hex"
	"encoding/json"
	"fmt"
	"io"
	"os"
	"path/filepath"
	"sort"
	"strconv"
	"strings"
	"sync"
	"time"

	"verif/h/core"
)

// ---- independent parsers for badger's log files and MANIFEST (boundaries only) ----

type logRec struct {
	Off, End   int64 // [Off, End) including the crc
	HdrEnd     int64
	KeyEnd     int64
	Meta       byte
	KLen, VLen int
	Key, Val   []byte // raw (encrypted if the file is encrypted)
}

// parseLog walks a .mem / .vlog file from the 20-byte file header until the first empty header.
func parseLog(b []byte) []logRec {
	var out []logRec
	off := int64(20)
	for off+2 < int64(len(b)) {
		p := off
		meta := b[p]
		p += 2
		kl, n := binary.Uvarint(b[p:])
		if n <= 0 {
			break
		}
		p += int64(n)
		vl, n := binary.Uvarint(b[p:])
		if n <= 0 {
			break
		}
		p += int64(n)
		_, n = binary.Uvarint(b[p:])
		if n <= 0 {
			break
		}
		p += int64(n)
		if kl == 0 || kl > 1<<16 || p+int64(kl)+int64(vl)+4 > int64(len(b)) {
			break
		}
		r := logRec{Off: off, HdrEnd: p, KeyEnd: p + int64(kl), Meta: meta, KLen: int(kl), VLen: int(vl)}
		r.Key = b[p : p+int64(kl)]
		r.Val = b[p+int64(kl) : p+int64(kl)+int64(vl)]
		r.End = p + int64(kl) + int64(vl) + 4
		out = append(out, r)
		off = r.End
	}
	return out
}

// walGroups returns the transactions of a WAL: [start,end) of each group ending in a bitFinTxn record,
// with the commit timestamp when the file is not encrypted (0 otherwise).
type walGroup struct {
	Off, End int64
	Ts       uint64
	Recs     []logRec
}

func walGroups(recs []logRec, encrypted bool) []walGroup {
	var out []walGroup
	var cur []logRec
	for _, r := range recs {
		cur = append(cur, r)
		if r.Meta&0x80 != 0 {
			g := walGroup{Off: cur[0].Off, End: r.End, Recs: cur}
			if !encrypted {
				g.Ts, _ = strconv.ParseUint(string(r.Val), 10, 64)
			}
			out = append(out, g)
			cur = nil
		} else if r.Meta&0x40 == 0 {
			// an entry outside a transaction (not produced by this workload): its own group
			out = append(out, walGroup{Off: r.Off, End: r.End, Recs: cur})
			cur = nil
		}
	}
	return out
}

type manRec struct{ Off, End int64 }

func parseManifest(b []byte) []manRec {
	var out []manRec
	off := int64(8)
	for off+8 <= int64(len(b)) {
		l := int64(binary.BigEndian.Uint32(b[off:]))
		if off+8+l > int64(len(b)) {
			break
		}
		out = append(out, manRec{off, off + 8 + l})
		off += 8 + l
	}
	return out
}

// interestingOffsets: every offset of small regions, boundaries and a sample of the interior of large ones.
func interestingOffsets(c *core.Ctx, stream string, recs []logRec, maxPer int) []int64 {
	r := c.Rand(stream)
	seen := map[int64]bool{}
	var out []int64
	add := func(o int64) {
		if !seen[o] {
			seen[o] = true
			out = append(out, o)
		}
	}
	for _, rec := range recs {
		for o := rec.Off; o <= rec.HdrEnd && o < rec.End; o++ {
			add(o) // every header byte
		}
		region := func(a, b int64) {
			if b-a <= 24 {
				for o := a; o < b; o++ {
					add(o)
				}
				return
			}
			for o := a; o < a+6; o++ {
				add(o)
			}
			for o := b - 6; o < b; o++ {
				add(o)
			}
			for i := 0; i < maxPer; i++ {
				add(a + 6 + r.Int63n(b-a-12))
			}
		}
		region(rec.HdrEnd, rec.KeyEnd)
		region(rec.KeyEnd, rec.End-4)
		for o := rec.End - 4; o < rec.End; o++ {
			add(o) // every crc byte
		}
	}
	sort.Slice(out, func(i, j int) bool { return out[i] < out[j] })
	return out
}

// capOffsets keeps at most max offsets: all of the last record (the torn one in a real crash) and a
// region-stratified sample of the rest.
func capOffsets(c *core.Ctx, stream string, recs []logRec, offs []int64, max int) []int64 {
	if len(offs) <= max || len(recs) == 0 {
		return offs
	}
	r := c.Rand(stream)
	last := recs[len(recs)-1]
	var keep, rest []int64
	for _, o := range offs {
		if o >= last.Off {
			keep = append(keep, o)
		} else {
			rest = append(rest, o)
		}
	}
	byRegion := map[string][]int64{}
	for _, o := range rest {
		byRegion[regionOf(recs, o)] = append(byRegion[regionOf(recs, o)], o)
	}
	names := []string{"header", "key", "value", "crc", "boundary"}
	for len(keep) < max {
		progressed := false
		for _, n := range names {
			if l := byRegion[n]; len(l) > 0 && len(keep) < max {
				i := r.Intn(len(l))
				keep = append(keep, l[i])
				l[i] = l[len(l)-1]
				byRegion[n] = l[:len(l)-1]
				progressed = true
			}
		}
		if !progressed {
			break
		}
	}
	sort.Slice(keep, func(i, j int) bool { return keep[i] < keep[j] })
	return keep
}

func copyDirE(src, dst string) error {
	if err := os.MkdirAll(dst, 0o755); err != nil {
		return err
	}
	ents, err := os.ReadDir(src)
	if err != nil {
		return err
	}
	for _, e := range ents {
		if e.IsDir() || e.Name() == "LOCK" {
			continue
		}
		in, err := os.Open(filepath.Join(src, e.Name()))
		if err != nil {
			return err
		}
		out, err := os.Create(filepath.Join(dst, e.Name()))
		if err != nil {
			in.Close()
			return err
		}
		_, err = io.Copy(out, in)
		in.Close()
		out.Close()
		if err != nil {
			return err
		}
	}
	return nil
}

func newestFile(dir, ext string) (string, int) {
	best, bestID := "", -1
	ents, _ := os.ReadDir(dir)
	for _, e := range ents {
		if strings.HasSuffix(e.Name(), ext) {
			id, err := strconv.Atoi(strings.TrimSuffix(e.Name(), ext))
			if err == nil && id > bestID {
				best, bestID = e.Name(), id
			}
		}
	}
	return best, bestID
}

// dumpOf runs the verifier child on a copy of image and returns its dump.
func dumpOf(c *core.Ctx, s *CrashSpec, image, scratch string) (*VerifyDump, string) {
	_ = os.RemoveAll(scratch)
	if err := copyDirE(image, filepath.Join(scratch, "db")); err != nil {
		return nil, "copy: " + err.Error()
	}
	sp := *s
	sp.Dir = filepath.Join(scratch, "db")
	specPath := filepath.Join(scratch, "spec.json")
	writeSpec(&sp, specPath)
	out, timedOut, _ := runChild(120*time.Second, nil, c.ID, "--child-verify", specPath)
	if timedOut {
		return nil, "timeout"
	}
	for _, ln := range strings.Split(out, "\n") {
		if strings.HasPrefix(ln, "DUMP ") {
			var d VerifyDump
			if json.Unmarshal([]byte(ln[5:]), &d) == nil {
				return &d, ""
			}
		}
	}
	return nil, "died: " + tailStr(out, 3000)
}

type tornCase struct {
	kind   string // wal | vlog | manifest
	file   string
	cut    int64
	fill   string // truncate | zero
	oldEnd int64
	region string
	// expected
	lostTs map[uint64]bool // WAL: commit timestamps of the groups not wholly before the cut
	lostN  int
	// value log: user keys (hex) of the records not wholly before the cut (nil when encrypted)
	damagedKeys map[string]bool
}

func regionOf(recs []logRec, cut int64) string {
	for _, r := range recs {
		if cut >= r.Off && cut < r.End {
			switch {
			case cut < r.HdrEnd:
				return "header"
			case cut < r.KeyEnd:
				return "key"
			case cut < r.End-4:
				return "value"
			default:
				return "crc"
			}
		}
	}
	return "boundary"
}

// C09 a torn tail of the newest WAL, value log or MANIFEST is recovered, not surfaced.
func C09(c *core.Ctx) {
	c.Rule("crash images produced by the C08 workload child (killed at the end of the workload without Close for WAL/value-log tails, killed right after a MANIFEST append for MANIFEST tails; " +
		"plain and AES configurations); record boundaries come from an independent parser of the file formats; for every header and checksum byte, the edges and sampled interior " +
		"offsets of keys and values of the last transactions of the newest WAL, of the last records of the newest value log file and for every byte of the last MANIFEST record, two " +
		"damaged copies are made (file truncated at the offset / remainder zero-filled up to the old end) and opened by a verifier child; oracle: Open succeeds; WAL: the recovered " +
		"transaction set equals the undamaged image's set minus exactly the transactions whose end marker is not wholly before the cut (plain files: matched by commit timestamp; " +
		"encrypted: by count), state = that set applied in order; value log: no read returns bytes other than the written value without reporting an error, nothing else changes; " +
		"MANIFEST: state unchanged; distinct = (file kind, fill, region of the cut: header/key/value/crc/boundary, configuration)")
	work := c.WorkDir()
	defer os.RemoveAll(work)
	cfgs := []crashConfig{
		{"base+deletes", 0, "deletes", false, 4, 60, 0},
		{"aes128+plain", 3, "plain", false, 4, 60, 0},
		{"snappy+bigthreshold", 1, "plain", false, 4, 60, 0},
	}
	if !c.Thorough() {
		cfgs = cfgs[:2]
	}
	type job struct {
		cfg   crashConfig
		spec  *CrashSpec
		image string
		tc    tornCase
		base  *VerifyDump
		si    *sideInfo
		idx   int
	}
	var jobs []job
	for ci, cfg := range cfgs {
		for _, mode := range []string{"end", "manifest", "manifest-compaction"} {
			if mode == "manifest-compaction" && ci > 1 {
				continue
			}
			s, sp := newCrashSpec(c, work, cfg, 0, fmt.Sprintf("img-%d-%s", ci, mode))
			s.MemTable = 24 << 10
			if mode == "manifest" {
				s.KillClass = "fs.append.MANIFEST"
				s.KillAt = int64(2 + ci)
				s.MemTable = 8 << 10 // enough flushes for the chosen append to happen in every configuration
			}
			if mode == "manifest-compaction" {
				// killed right after a compaction appended its change set (inputs not yet deleted) while
				// the MANIFEST is rewritten every few ms: the file before the record is short, the record
				// (several deletes and creates) long - where it is longer than everything before it, the
				// torn record announces more bytes than the whole cut file has
				s.KillClass = "pt.compact.afterManifest"
				s.KillAt = int64(1 + ci)
				s.MemTable = 8 << 10
				s.ManifestRewrite = 2
				s.Compactors = 2
				s.BaseTableSize = 1 << 10 // one compaction of the level-0 tables writes a dozen tables or more
				s.L0Tables = 2
			}
			writeSpec(s, sp)
			out, timedOut, _ := runChild(120*time.Second, nil, c.ID, "--child-crash", sp)
			si := parseSideLog(s.SideLog)
			if timedOut || (mode == "end" && !si.ended) || (mode != "end" && si.killed == "") {
				c.Inconclusive(fmt.Sprintf("image run %s/%s did not reach its end: fatal=%q timedOut=%v ended=%v %s", cfg.name, mode, si.fatal, timedOut, si.ended, tailStr(out, 300)))
				continue
			}
			image := s.Dir
			base, why := dumpOf(c, s, image, filepath.Join(work, fmt.Sprintf("base-%d-%s", ci, mode)))
			os.RemoveAll(filepath.Join(work, fmt.Sprintf("base-%d-%s", ci, mode)))
			if base == nil || base.OpenErr != "" {
				c.Inconclusive(fmt.Sprintf("undamaged image %s/%s cannot be opened (C08 decides): %s", cfg.name, mode, why))
				continue
			}
			c.Eval(1)
			encrypted := len(s.EncKey) > 0
			if mode == "end" {
				// newest WAL
				if name, _ := newestFile(image, ".mem"); name != "" {
					b, _ := os.ReadFile(filepath.Join(image, name))
					recs := parseLog(b)
					groups := walGroups(recs, encrypted)
					c.Count("torn.wal_records_parsed", int64(len(recs)))
					if len(groups) > 0 {
						oldEnd := groups[len(groups)-1].End
						first := len(groups) - c.Pick(2, 4)
						if first < 0 {
							first = 0
						}
						var tail []logRec
						for _, g := range groups[first:] {
							tail = append(tail, g.Recs...)
						}
						offs := capOffsets(c, fmt.Sprintf("walcap-%d", ci), tail, interestingOffsets(c, fmt.Sprintf("wal-%d", ci), tail, c.Pick(2, 12)), c.Pick(90, 1500))
						offs = append(offs, oldEnd) // cut exactly at the end: nothing lost
						for _, o := range offs {
							lost := map[uint64]bool{}
							n := 0
							for _, g := range groups {
								if g.End > o {
									lost[g.Ts] = true
									n++
								}
							}
							for _, fill := range []string{"truncate", "zero"} {
								jobs = append(jobs, job{cfg: cfg, spec: s, image: image, base: base, si: si,
									tc: tornCase{kind: "wal", file: name, cut: o, fill: fill, oldEnd: oldEnd, region: regionOf(tail, o), lostTs: lost, lostN: n}})
							}
						}
					}
				}
				// newest value log file
				if name, _ := newestFile(image, ".vlog"); name != "" {
					b, _ := os.ReadFile(filepath.Join(image, name))
					recs := parseLog(b)
					c.Count("torn.vlog_records_parsed", int64(len(recs)))
					if len(recs) > 0 {
						oldEnd := recs[len(recs)-1].End
						first := len(recs) - c.Pick(2, 4)
						if first < 0 {
							first = 0
						}
						offs := capOffsets(c, fmt.Sprintf("vlogcap-%d", ci), recs[first:], interestingOffsets(c, fmt.Sprintf("vlog-%d", ci), recs[first:], c.Pick(2, 12)), c.Pick(50, 600))
						for _, o := range offs {
							var dk map[string]bool
							if !encrypted {
								dk = map[string]bool{}
							}
							n := 0
							for _, r := range recs {
								if r.End > o {
									n++
									if dk != nil && len(r.Key) > 8 {
										dk[hex.EncodeToString(r.Key[:len(r.Key)-8])] = true
									}
								}
							}
							for _, fill := range []string{"truncate", "zero"} {
								jobs = append(jobs, job{cfg: cfg, spec: s, image: image, base: base, si: si,
									tc: tornCase{kind: "vlog", file: name, cut: o, fill: fill, oldEnd: oldEnd, region: regionOf(recs[first:], o), lostN: n, damagedKeys: dk}})
							}
						}
					}
				}
			} else {
				b, _ := os.ReadFile(filepath.Join(image, "MANIFEST"))
				recs := parseManifest(b)
				c.Count("torn.manifest_records_parsed", int64(len(recs)))
				if len(recs) > 0 {
					last := recs[len(recs)-1]
					c.Set(fmt.Sprintf("manifest_image_%d_%s", ci, mode), map[string]any{"records": len(recs), "last_record_offset": last.Off, "last_record_end": last.End,
						"announced_length_exceeds_cut_file_for_some_cut": last.End-last.Off-8 > last.Off+8})
					if last.End-last.Off-8 > last.Off+8 {
						c.Count("torn.manifest_images_whose_last_record_is_longer_than_the_file_before_it", 1)
					}
					if last.End != int64(len(b)) {
						c.Inconclusive("MANIFEST does not end at a record boundary in the undamaged image")
					}
					for o := last.Off; o < last.End; o++ {
						// long records: every offset of the header and the first payload bytes, then every 5th
						if last.End-last.Off > 96 && o > last.Off+24 && o < last.End-8 && (o-last.Off)%5 != 0 {
							continue
						}
						region := "payload"
						if o < last.Off+4 {
							region = "length"
						} else if o < last.Off+8 {
							region = "crc"
						}
						for _, fill := range []string{"truncate", "zero"} {
							jobs = append(jobs, job{cfg: cfg, spec: s, image: image, base: base, si: si,
								tc: tornCase{kind: "manifest", file: "MANIFEST", cut: o, fill: fill, oldEnd: last.End, region: region}})
						}
					}
				}
			}
		}
	}
	for i := range jobs {
		jobs[i].idx = i
	}
	var wg sync.WaitGroup
	ch := make(chan job)
	for w := 0; w < 14; w++ {
		wg.Add(1)
		go func() {
			defer wg.Done()
			for j := range ch {
				tornOne(c, work, j.cfg, j.spec, j.image, j.tc, j.base, j.si, j.idx)
			}
		}()
	}
	for _, j := range jobs {
		ch <- j
	}
	close(ch)
	wg.Wait()
	c.Sample(map[string]any{"cases": len(jobs), "example": "copy of a crash image; newest WAL cut at offset o inside the crc of the last transaction's end marker, remainder zero-filled; expected: that transaction is gone, everything else as in the undamaged image"})
	if c.Counter("torn.cases_verified") == 0 {
		c.Inconclusive("no torn-tail case was verified")
	}
	c.Assume("the damaged file is the newest of its kind and everything before the cut is intact; WAL, value log and MANIFEST are damaged one at a time")
}

func tornOne(c *core.Ctx, work string, cfg crashConfig, s *CrashSpec, image string, tc tornCase, base *VerifyDump, si *sideInfo, idx int) {
	scratch := filepath.Join(work, fmt.Sprintf("t%d", idx))
	defer os.RemoveAll(scratch)
	dbdir := filepath.Join(scratch, "db")
	if err := copyDirE(image, dbdir); err != nil {
		c.Inconclusive("copy: " + err.Error())
		return
	}
	p := filepath.Join(dbdir, tc.file)
	switch tc.fill {
	case "truncate":
		if err := os.Truncate(p, tc.cut); err != nil {
			c.Inconclusive(err.Error())
			return
		}
	case "zero":
		f, err := os.OpenFile(p, os.O_RDWR, 0)
		if err != nil {
			c.Inconclusive(err.Error())
			return
		}
		if tc.oldEnd > tc.cut {
			_, _ = f.WriteAt(make([]byte, tc.oldEnd-tc.cut), tc.cut)
		}
		f.Close()
	}
	sp := *s
	sp.Dir = dbdir
	specPath := filepath.Join(scratch, "spec.json")
	writeSpec(&sp, specPath)
	sig := fmt.Sprintf("C09|%s|%s", tc.kind, tc.fill)
	wit := map[string]any{"case": fmt.Sprintf("%s %s cut at %d (%s), old end %d, %s", tc.kind, tc.file, tc.cut, tc.region, tc.oldEnd, tc.fill), "config": cfg.name, "file": tc.file,
		"cut": tc.cut, "region": tc.region, "fill": tc.fill, "old_end": tc.oldEnd, "spec": sp}
	// expected set of transactions
	baseS := map[string]uint64{}
	for hk, it := range base.Items {
		k, _ := hex.DecodeString(hk)
		var cl, sq int
		if _, err := fmt.Sscanf(string(k), "m!%d/%d", &cl, &sq); err == nil && string(k) != "m!probe" {
			baseS[fmt.Sprintf("%d %d", cl, sq)] = it.Ver
		}
	}
	must := map[string]bool{}
	exact := map[string]bool{}
	encrypted := len(s.EncKey) > 0
	for id, ts := range baseS {
		if tc.kind == "wal" && !encrypted && tc.lostTs[ts] {
			continue
		}
		exact[id] = true
		must[id] = true
	}
	var opts verifyOpts
	switch {
	case tc.kind == "wal" && !encrypted:
		opts.exact = exact
	case tc.kind == "wal":
		// encrypted: the transactions cannot be matched by timestamp; at most lostN of the base set may be missing
		must = nil
		opts.subsetOf = exact
		opts.maxMissing = tc.lostN
	case tc.kind == "vlog":
		opts.exact = exact
		opts.valueErrorsOK = true
		opts.emptyOKKeys = tc.damagedKeys
		opts.maxEmpty = tc.lostN
	default:
		opts.exact = exact
	}
	// batches acknowledged in the side log may legitimately lose their tail in the WAL case
	acked := map[string]bool{}
	for id := range must {
		acked[id] = true
	}
	opts.noBatchAck = true
	if verifyRecoveredOpts(c, sig, &sp, specPath, si, acked, wit, opts) {
		c.Eval(1)
		c.Count("torn.cases_verified", 1)
		c.Count("torn.cases."+tc.kind+"."+tc.fill, 1)
		c.Distinct(fmt.Sprintf("%s|%s|%s|%s", tc.kind, tc.fill, tc.region, cfg.name))
	}
}
