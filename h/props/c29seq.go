package props

import (
	"fmt"
	"math/rand"
	"os"
	"path/filepath"

	badger "github.com/dgraph-io/badger/v4"

	"verif/h/core"
	"verif/h/drv"
	"verif/h/gen"
	"verif/h/hist"
	"verif/h/model"
)

// c29Seq1 runs one drop-heavy script and re-opens afterwards.
func c29Seq1(c *core.Ctx, work string, i int) { c29SeqSig(c, work, i, "C29") }

// c29SeqSig is c29Seq1 reporting under the given property (C14 runs the many-table layouts as well).
func c29SeqSig(c *core.Ctx, work string, i int, prop string) {
	seed := c.SubSeed(fmt.Sprintf("c29-seq-%d", i))
	r := rand.New(rand.NewSource(seed))
	nk := 12 + r.Intn(20)
	if i%3 == 1 {
		nk = 120 + r.Intn(200) // several tables per level: drops hit non-adjacent tables
	}
	keys := gen.KeySet(r, nk, 6)
	script := genScript(r, keys, c.Pick(160, 300), []int{0, 24, 64, 65, 300}, true)
	if i%3 == 1 {
		// bulk load first so that the deeper levels hold many small tables
		var bulk []scriptOp
		for b := 0; b < 6; b++ {
			var specs []drv.WriteSpec
			for j := 0; j < 60; j++ {
				specs = append(specs, drv.WriteSpec{Key: keys[r.Intn(len(keys))], Len: []int{24, 40, 60}[r.Intn(3)]})
			}
			bulk = append(bulk, scriptOp{Kind: "batch", Specs: specs}, scriptOp{Kind: "flush"}, scriptOp{Kind: "force", Level: 0, ID: 1}, scriptOp{Kind: "force", Level: 1, ID: 1})
		}
		script = append(bulk, script...)
	}
	// more drops: after every third check add a multi-prefix drop
	var s2 []scriptOp
	nMulti := 0
	for j, op := range script {
		s2 = append(s2, op)
		if op.Kind == "check" && j%3 == 0 {
			k := keys[r.Intn(len(keys))]
			op := scriptOp{Kind: "dropprefix", Prefix: append([]byte{}, k[:1+r.Intn(len(k))]...)}
			// one call with several prefixes (short ones, so that undropped keys lie between them)
			for n := r.Intn(3); n > 0; n-- {
				k2 := keys[r.Intn(len(keys))]
				op.Prefixes = append(op.Prefixes, append([]byte{}, k2[:1+r.Intn(min(2, len(k2)))]...))
			}
			if len(op.Prefixes) > 0 {
				op.Prefix = op.Prefix[:1+r.Intn(min(2, len(op.Prefix)))]
				nMulti++
			}
			s2 = append(s2, op, scriptOp{Kind: "check"})
		}
	}
	dir := filepath.Join(work, fmt.Sprintf("seq%d", i))
	_ = os.MkdirAll(dir, 0o755)
	defer os.RemoveAll(dir)
	opt, name := drvOptions(dir, i)
	if opt.MemTableSize < 64<<10 {
		opt.MemTableSize = 64 << 10
	}
	db, err := badger.Open(opt)
	if err != nil {
		c.Inconclusive("open: " + err.Error())
		return
	}
	w := &drv.World{C: c, Sig: prop + "|sequential", DB: db, Opt: opt, M: model.New(), R: r, Keys: keys}
	logs := execScript(c, w, s2)
	c.Eval(1)
	c.Count("drop.sequential_checks", int64(len(logs)))
	if err := w.DB.Close(); err != nil {
		c.Violation(prop+"|sequential|close", err.Error(), nil)
	}
	db, err = badger.Open(opt)
	if err != nil {
		c.Violation(prop+"|sequential|reopen", err.Error(), map[string]any{"steps": w.Steps})
		return
	}
	w.DB = db
	before := c.Violations()
	hist.CheckState(c, prop+"|sequential|after-reopen", db, w.M, hist.StateOpts{})
	if c.Violations() > before {
		c.Set("twin_failing_steps", w.Witness())
	}
	checkStructure(c, prop+"|sequential|after-reopen", db, opt, true, w.Witness)
	_ = db.Close()
	nd := 0
	for _, op := range s2 {
		if op.Kind == "dropprefix" || op.Kind == "dropall" {
			nd++
		}
	}
	c.Count("drop.sequential_drops", int64(nd))
	c.Count("drop.sequential_multi_prefix_drops", int64(nMulti))
	c.Distinct(fmt.Sprintf("sequential|%s|drops=%d", name, min(nd/10, 5)))
	_ = core.Root
}
