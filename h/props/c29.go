package props

import (
	"bytes"
	"errors"
	"fmt"
	"os"
	"path/filepath"
	"strings"
	"sync"
	"time"

	badger "github.com/dgraph-io/badger/v4"

	"verif/h/core"
	"verif/h/hist"
	"verif/h/model"
)

type dropEvent struct {
	Call, Ret int64
	Prefixes  [][]byte
	All       bool
	Err       string
}

func (d dropEvent) covers(k string) bool {
	if d.All {
		return true
	}
	for _, p := range d.Prefixes {
		if bytes.HasPrefix([]byte(k), p) {
			return true
		}
	}
	return false
}

// C29 DropAll and DropPrefix remove exactly the requested data, durably.
func C29(c *core.Ctx) {
	c.Rule("(1) sequential scripts (twin infrastructure) with DropPrefix over hostile prefixes (keys that are prefixes of one another, 0x00/0xFF tails) and DropAll between " +
		"commits, batches, flushes and compactions: after each drop the whole state must equal the model in which exactly the keys carrying the prefix are gone, also after " +
		"re-open; (2) concurrent histories of 6 blind writers while DropPrefix(p1[,p2]) runs 2-4 times: a write acknowledged before the call must be gone, one issued after the " +
		"return must be there, an overlapping one may go either way but all-or-nothing per transaction for the dropped keys; keys without the prefix are unchanged; commits refused " +
		"with ErrBlockedWrites leave no trace; the database accepts writes afterwards; (3) concurrent DropAll: nothing acknowledged before the call survives; distinct = (family, " +
		"options, prefix shape, overlap observed) classes; (4) crash inside drops (E2 engine): a workload child whose maintenance goroutine calls DropPrefix every 4-24 ms while " +
		"transaction and batch clients commit is SIGKILLed at drop-phase schedule points, at persistence events of the drop's flushes/compactions and at random events; after " +
		"re-open (twice) the commit-prefix oracle of C08 holds for the markers, every key carrying a dropped prefix is absent when its newest writer was acknowledged before a " +
		"completed drop, holds its pre-drop value or is absent when a drop covering it overlapped the writer or never returned, and every other key equals the model; DropAll " +
		"variant: phase A commits, DropAll, phase B commits - killed inside DropAll every key holds its pre-drop value or is absent, killed later nothing of phase A is visible and phase B obeys the commit-prefix oracle")
	work := c.WorkDir()
	defer os.RemoveAll(work)
	c29Crash(c, work)
	// (2)+(3) concurrent
	idx := 0
	for round := 0; round < c.Pick(3, 20); round++ {
		for _, v := range []int{0, 1, 6} {
			for _, all := range []bool{false, true} {
				idx++
				if all && idx%2 == 0 {
					continue
				}
				var drops []dropEvent
				var mu sync.Mutex
				stop := make(chan struct{})
				var wg sync.WaitGroup
				var keysRef [][]byte
				hr := HistRun{Variant: v, NKeys: 30, MaxKey: 6,
					Mix: func(keys [][]byte) hist.Mix {
						keysRef = keys
						m := hist.DefaultMix(keys)
						m.Clients = 6
						m.TxnsPerClient = c.Pick(200, 400)
						m.NoReads, m.ROFrac, m.HeldFrac, m.OwnReadFrac = true, 0, 0, 0
						m.BlindFrac = 1
						m.DeleteFrac, m.ExpireFrac = 0.1, 0
						m.ValSizes = []int{24, 64, 65, 300}
						return m
					},
					OnStart: func(db *badger.DB, e *hist.Engine) {
						wg.Add(1)
						go func() {
							defer wg.Done()
							r := c.Rand(fmt.Sprintf("c29-drops-%d", idx))
							for n := 0; n < 2+r.Intn(3); n++ {
								select {
								case <-stop:
									return
								case <-time.After(time.Duration(8+r.Intn(15)) * time.Millisecond):
								}
								d := dropEvent{All: all}
								if !all {
									for j := 0; j < 1+r.Intn(2); j++ {
										k := keysRef[r.Intn(len(keysRef))]
										d.Prefixes = append(d.Prefixes, append([]byte{}, k[:1+r.Intn(len(k))]...))
									}
								}
								d.Call = e.Clock.Add(1)
								var err error
								if all {
									err = db.DropAll()
								} else {
									err = db.DropPrefix(d.Prefixes...)
								}
								d.Ret = e.Clock.Add(1)
								if err != nil {
									d.Err = err.Error()
								}
								mu.Lock()
								drops = append(drops, d)
								mu.Unlock()
								if all {
									return
								}
							}
						}()
					},
					BeforeResolve: func() { close(stop); wg.Wait() }}
				res, err := runHistory(c, work, idx, hr)
				if err != nil {
					c.Inconclusive(err.Error())
					continue
				}
				c.Eval(1)
				info := map[string]any{"options": res.Name, "dropall": all, "drops": len(drops)}
				for _, d := range drops {
					if d.Err != "" {
						c.Violation("C29|drop-error", "drop returned "+d.Err, info)
					}
				}
				blocked := 0
				for _, t := range res.H.Txns {
					if strings.Contains(t.CommitErr, "Writes are blocked") {
						blocked++
					}
				}
				c.Count("drop.commits_refused_with_ErrBlockedWrites", int64(blocked))
				if all {
					// nothing acknowledged before the call may survive
					if len(drops) > 0 {
						d := drops[0]
						byID := map[int]*hist.TxnRec{}
						for _, t := range res.H.Txns {
							byID[t.ID] = t
						}
						_ = res.DB.View(func(txn *badger.Txn) error {
							it := txn.NewIterator(badger.DefaultIteratorOptions)
							defer it.Close()
							for it.Rewind(); it.Valid(); it.Next() {
								rec := hist.ReadItemPublic(it.Item(), true)
								var id, n int
								if _, err := fmt.Sscanf(rec.Head, "t%d.%d", &id, &n); err != nil {
									if _, err := fmt.Sscanf(rec.Head, "t%d.m", &id); err != nil {
										continue
									}
								}
								c.Count("drop.survivors_checked", 1)
								if t := byID[id]; t != nil && t.CommitRet != 0 && t.CommitRet < d.Call && t.CommitErr == "" {
									c.Violation("C29|dropall|survivor", fmt.Sprintf("key %x written by txn %d (acknowledged before DropAll was called) is still visible", rec.Key, id), info)
									return nil
								}
							}
							return nil
						})
					}
				} else {
					reportProbs(c, "C29|concurrent", filterProbs(res.Probs), res.Name)
					checkDropHistory(c, res, drops, info)
				}
				// the database accepts writes afterwards
				if err := res.DB.Update(func(txn *badger.Txn) error { return txn.Set([]byte("b~after"), []byte("x")) }); err != nil {
					c.Violation("C29|writes-refused-after-drop", err.Error(), info)
				}
				ov := 0
				for _, d := range drops {
					for _, t := range res.H.Txns {
						if t.CommitCall < d.Ret && t.CommitRet > d.Call {
							ov++
						}
					}
				}
				c.Count("drop.commits_overlapping_a_drop", int64(ov))
				c.Distinct(fmt.Sprintf("concurrent|%s|all=%v|overlap=%v|blocked=%v", res.Name, all, ov > 0, blocked > 0))
				if idx <= 2 {
					c.Sample(info)
				}
				_ = res.DB.Close()
				_ = os.RemoveAll(res.Dir)
			}
		}
	}
	// (1) sequential scripts with re-open
	c29Sequential(c, work)
	c.CheckRaces(nil, "", "")
	c.Assume("concurrent clients are blind writers (reads during a drop are outside the statement); DropAll's concurrent family only asserts that nothing acknowledged before the call survives")
}

// filterProbs drops "lost-commit" complaints: a transaction acknowledged before a drop may legitimately lose its marker only if the marker carries a dropped prefix (it never does), so all are kept.
func filterProbs(p []string) []string { return p }

func checkDropHistory(c *core.Ctx, res *HistResult, drops []dropEvent, info map[string]any) {
	now := uint64(time.Now().Unix())
	// classify every committed write
	type tag int
	const (
		kept tag = iota
		ambiguous
		dropped
	)
	classify := func(t *hist.TxnRec, k string) tag {
		out := kept
		for _, d := range drops {
			if !d.covers(k) {
				continue
			}
			switch {
			case t.CommitRet < d.Call:
				return dropped
			case t.CommitCall < d.Ret:
				out = ambiguous
			}
		}
		return out
	}
	type wr struct {
		t   *hist.TxnRec
		v   model.Ver
		tag tag
	}
	byKey := map[string][]wr{}
	for _, t := range res.H.Txns {
		if t.CommitTs == 0 {
			continue
		}
		for k, v := range t.Pending() {
			v.Ts = t.CommitTs
			byKey[k] = append(byKey[k], wr{t, v, classify(t, k)})
		}
	}
	observed := map[int]string{} // ambiguous txn -> "kept"/"dropped" as decided by some key
	txn := res.DB.NewTransaction(false)
	defer txn.Discard()
	for k, ws := range byKey {
		// newest first
		for i := 0; i < len(ws); i++ {
			for j := i + 1; j < len(ws); j++ {
				if ws[j].v.Ts > ws[i].v.Ts {
					ws[i], ws[j] = ws[j], ws[i]
				}
			}
		}
		it, err := txn.Get([]byte(k))
		var gotVer uint64
		found := err == nil
		if found {
			gotVer = it.Version()
		} else if !errors.Is(err, badger.ErrKeyNotFound) {
			c.Violation("C29|read-error", err.Error(), info)
			continue
		}
		c.Count("drop.keys_checked", 1)
		// walk the versions: find which one explains the observation
		explained := false
		for _, w := range ws {
			isVisible := found && gotVer == w.v.Ts
			switch w.tag {
			case dropped:
				if isVisible {
					c.Violation("C29|dropprefix|dropped-write-visible", fmt.Sprintf("key %x@%d was acknowledged before a DropPrefix covering it was called, but is still visible", k, w.v.Ts), info)
					explained = true
				}
				continue
			case kept:
				// this version must be what is visible (or hide the key if it is a delete)
				if w.v.Dead(now) {
					explained = !found
				} else {
					explained = isVisible
				}
				if !explained {
					kind := "other-key-dropped"
					covered := false
					for _, d := range drops {
						covered = covered || d.covers(k)
					}
					if covered {
						kind = "write-after-drop-lost"
					}
					c.Violation("C29|dropprefix|"+kind, fmt.Sprintf("key %x: expected version %d (txn %d) to decide the read, found=%v version=%d", k, w.v.Ts, w.t.ID, found, gotVer), info)
					explained = true
				}
			case ambiguous:
				if (w.v.Dead(now) && !found) || isVisible {
					// consistent with "kept"... unless an older version explains absence too; take kept only when visible
					if isVisible {
						if observed[w.t.ID] == "dropped" {
							c.Violation("C29|dropprefix|transaction-partially-dropped", fmt.Sprintf("txn %d overlapping a DropPrefix has some of its dropped-prefix keys removed and key %x kept", w.t.ID, k), info)
						}
						observed[w.t.ID] = "kept"
						explained = true
					}
				}
				if !explained && found && gotVer < w.v.Ts {
					// an older version shines through: this ambiguous write was dropped
					if observed[w.t.ID] == "kept" {
						c.Violation("C29|dropprefix|transaction-partially-dropped", fmt.Sprintf("txn %d overlapping a DropPrefix has key %x removed and others kept", w.t.ID, k), info)
					}
					observed[w.t.ID] = "dropped"
				}
				if explained {
					break
				}
				continue
			}
			break
		}
		if !explained && found {
			// visible version must be one of the versions we know
			known := false
			for _, w := range ws {
				known = known || w.v.Ts == gotVer
			}
			if !known {
				c.Violation("C29|dropprefix|unknown-version", fmt.Sprintf("key %x shows version %d that no committed transaction wrote", k, gotVer), info)
			}
		}
	}
}

func c29Sequential(c *core.Ctx, work string) {
	n := c.Pick(20, 200)
	for i := 0; i < n; i++ {
		c29Seq1(c, work, i)
	}
}

// c29Crash: crashes inside DropPrefix (E2 engine, family "drops").
func c29Crash(c *core.Ctx, work string) {
	cfgs := []crashConfig{{"base+drops", 0, "drops", false, 4, 70, 0}, {"base+dropall", 0, "dropall", false, 4, 60, 0}, {"snappy+drops", 1, "drops", false, 4, 70, 0}, {"aes+dropall", 3, "dropall", false, 4, 60, 0}}
	if !c.Thorough() {
		cfgs = cfgs[:2]
	}
	type job struct {
		cfg       crashConfig
		name      string
		killAt    int64
		killClass string
	}
	var jobs []job
	for ci, cfg := range cfgs {
		s, specPath := newCrashSpec(c, work, cfg, 0, fmt.Sprintf("dcount-%d", ci))
		writeSpec(s, specPath)
		out, timedOut, _ := runChild(120*time.Second, nil, c.ID, "--child-crash", specPath)
		si := parseSideLog(s.SideLog)
		if timedOut || !si.ended {
			c.Inconclusive("drop crash counting run did not end: " + tailStr(out, 300))
			os.RemoveAll(filepath.Dir(specPath))
			continue
		}
		verifyRecovered(c, "C29|crash|end-of-workload", s, specPath, si, si.acked, map[string]any{"case": "counting run", "config": cfg.name})
		os.RemoveAll(filepath.Dir(specPath))
		c.Count("drop.crash_drops_in_counting_run", int64(len(si.drops)))
		byClass := map[string]int{}
		for _, e := range si.events {
			byClass[e]++
		}
		for _, cl := range []string{"pt.dropall.afterPrepare", "pt.dropall.afterTree", "fs.unlink.vlog", "fs.create.vlog", "pt.dropprefix.afterPrepare", "pt.dropprefix.beforeLevels", "pt.compact.afterBuild", "pt.compact.afterManifest", "pt.compact.afterReplace", "pt.compact.afterDelete", "fs.unlink.sst", "fs.append.MANIFEST", "fs.unlink.mem", "pt.flush.beforeAdd"} {
			n := byClass[cl]
			for k := 0; k < c.Pick(2, 12) && n > 0; k++ {
				jobs = append(jobs, job{cfg, fmt.Sprintf("d%d-%s-%d", ci, cl, k), int64(1 + (k*n)/c.Pick(2, 12)), cl})
			}
		}
		rk := c.Rand("c29-kp")
		for k := 0; k < c.Pick(10, 120) && len(si.events) > 0; k++ {
			n := int64(1 + rk.Intn(len(si.events)))
			jobs = append(jobs, job{cfg, fmt.Sprintf("d%d-n%d-%d", ci, n, k), n, ""})
		}
	}
	var wg sync.WaitGroup
	ch := make(chan job)
	for w := 0; w < 12; w++ {
		wg.Add(1)
		go func() {
			defer wg.Done()
			for j := range ch {
				si, ok := runCrashCase(c, "C29|crash", work, j.cfg, 0, j.name, j.killAt, j.killClass, nil)
				c.Eval(1)
				if ok && si != nil {
					inDrop := false
					for _, d := range si.drops {
						if d.end == 0 {
							inDrop = true
							if d.all {
								c.Count("drop.crash_cases_killed_inside_dropall", 1)
							}
						}
					}
					c.Count("drop.crash_cases", 1)
					if inDrop {
						c.Count("drop.crash_cases_killed_inside_a_drop", 1)
					}
					c.Distinct(fmt.Sprintf("crash|%s|%s|inside-drop=%v", j.cfg.name, si.killed, inDrop))
				}
			}
		}()
	}
	for _, j := range jobs {
		ch <- j
	}
	close(ch)
	wg.Wait()
	if c.Counter("drop.crash_cases_killed_inside_a_drop") == 0 {
		c.Inconclusive("no child was killed inside a DropPrefix call")
	}
}
