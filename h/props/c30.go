package props

import (
	"encoding/json"
	"fmt"
	"os"
	"path/filepath"
	"strings"
	"sync"
	"time"

	badger "github.com/dgraph-io/badger/v4"

	"verif/h/core"
	"verif/h/hist"
)

type seqNum struct {
	N      uint64
	Obj    int // global object id
	Phase  int // restart epoch
	Worker int
	Idx    int
}

// seqRound runs goroutines over sequence objects on one key and records every number handed out.
func seqRound(db *badger.DB, key []byte, phase, nObj, nWorkers, nNext int, bw uint64, objBase int, release bool, seed int64) ([]seqNum, []string) {
	var probs []string
	var mu sync.Mutex
	var out []seqNum
	objs := make([]*badger.Sequence, nObj)
	for i := range objs {
		// GetSequence itself may hit a conflict when several objects are created concurrently; retry
		for try := 0; try < 50; try++ {
			s, err := db.GetSequence(key, bw)
			if err == nil {
				objs[i] = s
				break
			}
		}
		if objs[i] == nil {
			probs = append(probs, "GetSequence kept failing")
			return nil, probs
		}
	}
	var wg sync.WaitGroup
	for w := 0; w < nWorkers; w++ {
		wg.Add(1)
		go func(w int) {
			defer wg.Done()
			o := w % nObj
			var local []seqNum
			for i := 0; i < nNext; i++ {
				n, err := objs[o].Next()
				if err != nil {
					continue // a failed Next hands out nothing
				}
				local = append(local, seqNum{N: n, Obj: objBase + o, Phase: phase, Worker: w, Idx: i})
			}
			mu.Lock()
			out = append(out, local...)
			mu.Unlock()
		}(w)
	}
	wg.Wait()
	if release {
		for _, s := range objs {
			_ = s.Release()
		}
	}
	return out, probs
}

func checkSeq(c *core.Ctx, sig string, nums []seqNum, info map[string]any) {
	seen := map[uint64]seqNum{}
	lastByWorker := map[[3]int]uint64{}
	haveLast := map[[3]int]bool{}
	for _, n := range nums {
		c.Count("seq.numbers_checked", 1)
		if p, dup := seen[n.N]; dup {
			kind := "same-run"
			if p.Phase != n.Phase {
				kind = "across-restart"
			}
			w := map[string]any{"info": info, "number": n.N, "first": fmt.Sprintf("%+v", p), "second": fmt.Sprintf("%+v", n)}
			c.Violation(sig+"|duplicate|"+kind+fmt.Sprintf("|same-object=%v", p.Obj == n.Obj), fmt.Sprintf("sequence number %d was handed out twice (objects %d and %d, epochs %d and %d)", n.N, p.Obj, n.Obj, p.Phase, n.Phase), w)
			return
		}
		seen[n.N] = n
		// strictly increasing per object as observed by one worker (workers share objects, so only
		// the order within one worker's calls on its object is a real-time order)
		k := [3]int{n.Phase, n.Obj, n.Worker}
		if haveLast[k] && n.N <= lastByWorker[k] {
			c.Violation(sig+"|not-increasing", fmt.Sprintf("object %d returned %d after %d to the same caller", n.Obj, n.N, lastByWorker[k]), info)
			return
		}
		lastByWorker[k], haveLast[k] = n.N, true
	}
}

// C30 sequence numbers are unique and increasing (in-process part: concurrency, Release, restarts).
func C30(c *core.Ctx) {
	c.Rule("2-8 goroutines call Next on 1-4 Sequence objects for the same key (bandwidth 1-5) in 2-4 epochs separated by Release (or not) and close/re-open of the database; every " +
		"number returned with a nil error is logged; oracle: globally unique across objects and epochs, strictly increasing per object as seen by each caller; crash epochs: a workload child (3 goroutines on Sequence objects with bandwidth 1-5, Release/re-lease, " +
		"plus transaction clients so that flushes and compactions run) logs every number outside the database and is SIGKILLed at a random hook event, 2-3 times on the same directory, " +
		"with a clean verifier session (7 numbers) after each kill; all numbers over all epochs must be pairwise different; distinct = (objects, workers, bandwidth, release, epochs) configurations")
	work := c.WorkDir()
	defer os.RemoveAll(work)
	r := c.Rand("c30")
	n := c.Pick(40, 400)
	for i := 0; i < n; i++ {
		dir := filepath.Join(work, fmt.Sprintf("s%d", i))
		_ = os.MkdirAll(dir, 0o755)
		ov := hist.SmallOptions(dir, []int{0, 1, 6}[i%3], r)
		db, err := badger.Open(ov.Opt)
		if err != nil {
			c.Inconclusive("open: " + err.Error())
			continue
		}
		nObj, nWorkers, bw := 1+r.Intn(4), 2+r.Intn(7), uint64(1+r.Intn(5))
		if nWorkers < nObj {
			nWorkers = nObj
		}
		epochs := 2 + r.Intn(3)
		release := r.Intn(2) == 0
		info := map[string]any{"objects": nObj, "workers": nWorkers, "bandwidth": bw, "epochs": epochs, "release": release, "options": ov.Name}
		var all []seqNum
		c.Eval(1)
		for ep := 0; ep < epochs; ep++ {
			nums, probs := seqRound(db, []byte("seq-key"), ep, nObj, nWorkers, 10+r.Intn(25), bw, ep*10, release, r.Int63())
			for _, p := range probs {
				c.Inconclusive(p)
			}
			all = append(all, nums...)
			if ep < epochs-1 {
				if err := db.Close(); err != nil {
					c.Violation("C30|close", err.Error(), info)
				}
				if db, err = badger.Open(ov.Opt); err != nil {
					c.Violation("C30|reopen", err.Error(), info)
					break
				}
			}
		}
		checkSeq(c, "C30", all, info)
		if db != nil {
			_ = db.Close()
		}
		_ = os.RemoveAll(dir)
		c.Distinct(fmt.Sprintf("obj=%d|workers=%d|bw=%d|release=%v|epochs=%d", nObj, min(nWorkers, 4), bw, release, epochs))
		if i < 2 {
			info["numbers"] = len(all)
			c.Sample(info)
		}
	}
	for i := 0; i < c.Pick(6, 40); i++ {
		c30Crash(c, work, i)
	}
	if c.Counter("seq.numbers_checked") == 0 {
		c.Inconclusive("no numbers handed out")
	}
	c.CheckRaces(nil, "", "")
	c.Assume("numbers are compared as returned values; a Next that returned an error handed out nothing")
}

// c30Crash: sequence numbers across crashes (E2 engine, family "seq").
func c30Crash(c *core.Ctx, work string, idx int) {
	r := c.Rand(fmt.Sprintf("c30-crash-%d", idx))
	cfg := crashConfig{name: []string{"base", "snappy", "syncwrites"}[idx%3], variant: []int{0, 1, 7}[idx%3], family: "seq", sync: idx%3 == 2, clients: 3, txns: 40}
	s, specPath := newCrashSpec(c, work, cfg, idx, fmt.Sprintf("seqcrash%d", idx))
	defer os.RemoveAll(filepath.Dir(specPath))
	type origin struct {
		epoch int
		who   string
	}
	seen := map[uint64]origin{}
	info := map[string]any{"config": cfg.name, "spec": s}
	note := func(n uint64, o origin) {
		c.Count("seq.crash_numbers_checked", 1)
		c.Count("seq.numbers_checked", 1)
		if p, dup := seen[n]; dup {
			c.Violation("C30|crash|duplicate", fmt.Sprintf("number %d was handed out in epoch %d (%s) and again in epoch %d (%s); epochs are separated by a SIGKILL and a clean session", n, p.epoch, p.who, o.epoch, o.who), info)
			return
		}
		seen[n] = o
	}
	epochs := 2 + r.Intn(2)
	for ep := 0; ep < epochs; ep++ {
		s.SideLog = filepath.Join(filepath.Dir(specPath), fmt.Sprintf("side%d.log", ep))
		s.Seed = r.Int63()
		s.KillAt = int64(40 + r.Intn(1500))
		writeSpec(s, specPath)
		out, timedOut, _ := runChild(90*time.Second, nil, c.ID, "--child-crash", specPath)
		if timedOut {
			c.Inconclusive("sequence workload child timed out: " + tailStr(out, 200))
			return
		}
		si := parseSideLog(s.SideLog)
		if si.fatal != "" {
			c.Violation("C30|crash|workload-open-error", si.fatal, info)
			return
		}
		for _, n := range si.seqNums {
			note(n.num, origin{ep, fmt.Sprintf("workload goroutine %d", n.client)})
		}
		if si.killed != "" {
			c.Count("seq.crash_epochs_killed_mid_workload", 1)
			c.Distinct("crash-epoch|" + cfg.name + "|" + si.killed)
		}
		// clean session after the crash
		out, timedOut, _ = runChild(120*time.Second, nil, c.ID, "--child-verify", specPath)
		if timedOut {
			c.Inconclusive("verifier child timed out")
			return
		}
		var d VerifyDump
		found := false
		for _, ln := range strings.Split(out, "\n") {
			if strings.HasPrefix(ln, "DUMP ") && json.Unmarshal([]byte(ln[5:]), &d) == nil {
				found = true
			}
		}
		switch {
		case !found:
			c.Violation("C30|crash|open-died", "re-opening after the crash killed the process", map[string]any{"output": tailStr(out, 4000)})
			return
		case d.OpenErr != "":
			c.Violation("C30|crash|open-error", d.OpenErr, info)
			return
		case d.SeqErr != "":
			c.Violation("C30|crash|sequence-error-after-recovery", d.SeqErr, info)
			return
		}
		for _, n := range d.SeqNext {
			note(n, origin{ep, "session after the crash"})
		}
	}
	c.Eval(1)
}
