package props

import (
	"bytes"
	"fmt"
	"math/rand"
	"os"
	"path/filepath"
	"sync"
	"time"

	badger "github.com/dgraph-io/badger/v4"

	"verif/h/core"
	"verif/h/drv"
	"verif/h/hist"
	"verif/h/model"
	"verif/h/sched"
)

// allVersions reads every version of every key (AllVersions iteration at the newest timestamp).
func allVersions(db *badger.DB, managed bool) map[string][]hist.ItemRec {
	var txn *badger.Txn
	if managed {
		txn = db.NewTransactionAt(^uint64(0), false)
	} else {
		txn = db.NewTransaction(false)
	}
	defer txn.Discard()
	io := badger.DefaultIteratorOptions
	io.AllVersions = true
	it := txn.NewIterator(io)
	defer it.Close()
	out := map[string][]hist.ItemRec{}
	for it.Rewind(); it.Valid(); it.Next() {
		rec := hist.ReadItemPublic(it.Item(), true)
		out[rec.Key] = append(out[rec.Key], rec)
	}
	return out
}

// checkRetention asserts AllVersions >= MustRetain for every key.
func checkRetention(c *core.Ctx, w *drv.World, step string) {
	now := uint64(time.Now().Unix())
	got := allVersions(w.DB, w.Managed)
	keep := w.Opt.NumVersionsToKeep
	if keep >= 1<<29 {
		keep = 0
	}
	for _, k := range w.M.Keys() {
		must := w.M.MustRetain(k, w.MaxU, keep, now)
		have := map[uint64]hist.ItemRec{}
		for _, it := range got[k] {
			have[it.Version] = it
		}
		for _, v := range must {
			c.Count("retention.versions_required", 1)
			it, ok := have[v.Ts]
			if !ok {
				kind := "at-or-below-watermark"
				if v.Ts > w.MaxU {
					kind = "above-watermark"
				}
				if v.Merge {
					kind = "merge-entry"
				}
				wit := w.Witness()
				wit["key"] = fmt.Sprintf("%x", k)
				wit["missing_version"] = v.Ts
				wit["watermark_upper_bound"] = w.MaxU
				wit["num_versions_to_keep"] = w.Opt.NumVersionsToKeep
				var hv []uint64
				for _, x := range got[k] {
					hv = append(hv, x.Version)
				}
				wit["versions_present"] = hv
				var mv []string
				for _, x := range w.M.M[k] {
					mv = append(mv, fmt.Sprintf("%d del=%v exp=%v disc=%v merge=%v", x.Ts, x.Del, x.ExpiresAt != 0, x.Discard, x.Merge))
				}
				wit["model_versions"] = mv
				c.Violation("C13|missing-version|"+kind, fmt.Sprintf("after %s: key %x lost version %d (watermark upper bound %d, keep %d)", step, k, v.Ts, w.MaxU, w.Opt.NumVersionsToKeep), wit)
				return
			}
			wv := v.Value()
			if !v.Del && (it.ValLen != len(wv)) {
				c.Violation("C13|retained-version-altered", fmt.Sprintf("key %x version %d has a different value length", k, v.Ts), w.Witness())
				return
			}
		}
	}
}

// C13 retention promises of compaction.
func C13(c *core.Ctx) {
	c.Rule("driver histories (as C12) with NumVersionsToKeep 1/2/3/unbounded, deletes, past/future expiry, discard-earlier entries and merge-operator entries (small and value-log sized; every fourth history with value-log GC steps), open " +
		"snapshots and SetDiscardTs movement; after every flush/compaction an AllVersions scan must contain MustRetain(key, U, keep): every version above U plus, walking down, " +
		"up to keep versions stopping at (excluding) a delete/expired and at (including) a discard-earlier entry, and every merge entry; U is an upper bound of all discard " +
		"timestamps used so far computed independently (managed: SetDiscardTs value; normal: the smallest open read timestamp, or the newest commit); the discard ts reported by the " +
		"compaction hook must not exceed that bound; distinct = (keep, mode, entry-kind mix) classes plus compaction shapes")
	work := c.WorkDir()
	defer os.RemoveAll(work)
	r := c.Rand("c13")
	var mu sync.Mutex
	var hookMax uint64
	var cur *drv.World
	sched.Install(sched.Config{OnEv: func(name string, a, b uint64) {
		if name == "compact.discardTs" {
			mu.Lock()
			if a > hookMax {
				hookMax = a
			}
			mu.Unlock()
		}
	}})
	defer sched.Uninstall()
	keeps := []int{1, 2, 3, 1 << 30}
	n := c.Pick(36, 200)
	for i := 0; i < n; i++ {
		keep := keeps[i%4]
		managed := i%3 == 1
		mu.Lock()
		hookMax = 0
		mu.Unlock()
		var mops []*badger.MergeOperator
		// every fourth history also runs value-log GC (merge operands and other retained versions that
		// live in the value log are moved by a rewrite and must keep what makes compaction retain them)
		withGC := i%4 == 2 && !managed
		driverRunX(c, "C13", work, i, managed, r, c.Pick(260, 450), withGC,
			func(o *badger.Options) {
				o.NumVersionsToKeep = keep
				if withGC {
					o.ValueThreshold = 32
					o.ValueLogMaxEntries = 20
				}
			},
			func(w *drv.World, step string) {
				if cur != w {
					cur = w
					w.DiscardFrac = 0.1
					if !managed {
						// merge-operator entries on two keys; the background merge never fires (1h period)
						for j := 0; j < 2; j++ {
							k := []byte(fmt.Sprintf("b~merge%d", j))
							mops = append(mops, w.DB.GetMergeOperator(k, func(a, b []byte) []byte { return append(append([]byte{}, a...), b...) }, time.Hour))
						}
					}
				}
				if step == "end" {
					return
				}
				if !managed && len(mops) > 0 && w.R.Intn(2) == 0 {
					j := w.R.Intn(len(mops))
					k := fmt.Sprintf("b~merge%d", j)
					val := []byte(fmt.Sprintf("m%d;", w.R.Intn(1000)))
					if w.R.Intn(2) == 0 {
						val = append(val, bytes.Repeat([]byte{'.'}, 60+w.R.Intn(200))...) // large enough for the value log
						val = append(val, ';')
					}
					if err := mops[j].Add(val); err == nil {
						ts := w.DB.VerifNextTxnTs() - 1
						w.M.Put(k, modelMergeVer(ts, val))
						c.Count("retention.merge_entries_added", 1)
					}
				}
				mu.Lock()
				hm := hookMax
				mu.Unlock()
				if hm > w.MaxU {
					c.Violation("C13|discard-ts-above-watermark", fmt.Sprintf("a compaction used discard timestamp %d, above the watermark upper bound %d", hm, w.MaxU), w.Witness())
				}
				checkRetention(c, w, step)
			})
		c.Distinct(fmt.Sprintf("keep=%d|managed=%v|gc=%v", keep, managed, withGC))
	}
	for i := 0; i < c.Pick(3, 12); i++ {
		c13MergeThroughGC(c, work, i, r)
	}
	if c.Counter("retention.versions_required") == 0 {
		c.Inconclusive("no retention obligations were checked")
	}
	c.Assume("merge-operator Stop() (which runs a final merge) is never called; merge entries are added only in normal mode (GetMergeOperator uses db.Update)")
}

// c13MergeThroughGC: merge-operator operands large enough for the value log are moved by a GC
// rewrite (before any background merge folds them) and then go through compactions at or below the
// discard watermark; every operand must still be there and the operator must still fold all of them.
func c13MergeThroughGC(c *core.Ctx, work string, idx int, r *rand.Rand) {
	dir := filepath.Join(work, fmt.Sprintf("mgc%d", idx))
	_ = os.MkdirAll(dir, 0o755)
	defer os.RemoveAll(dir)
	o, _ := drvOptions(dir, 0)
	o.MemTableSize = 1 << 20
	o.ValueThreshold = 32
	o.ValueLogMaxEntries = 24
	o.MaxLevels = 3
	o.NumLevelZeroTables = 1
	o.NumVersionsToKeep = 1 + idx%3
	db, err := drv.Open(o, false)
	if err != nil {
		c.Inconclusive("open: " + err.Error())
		return
	}
	w := &drv.World{C: c, Sig: "C13|merge-through-gc", DB: db, Opt: o, M: model.New(), R: r, NextTs: 5}
	defer func() { _ = w.DB.Close() }()
	key := []byte("b~mergegc")
	mop := w.DB.GetMergeOperator(key, func(a, b []byte) []byte { return append(append([]byte{}, a...), b...) }, time.Hour)
	var want []byte
	nOps := 6 + r.Intn(8)
	for i := 0; i < nOps; i++ {
		val := append([]byte(fmt.Sprintf("op%d:", i)), bytes.Repeat([]byte{byte('a' + i%26)}, 80+r.Intn(100))...)
		if err := mop.Add(val); err != nil {
			c.Inconclusive("merge Add: " + err.Error())
			return
		}
		w.M.Put(string(key), modelMergeVer(w.DB.VerifNextTxnTs()-1, val))
		want = append(want, val...)
	}
	// keep+1 generations of junk: the oldest generation (in the first value-log file, next to the
	// operands) is discarded by compaction, which gives GC its discard statistics
	for round := 0; round <= o.NumVersionsToKeep; round++ {
		for i := 0; i < 18; i++ {
			_, _ = w.Commit([]drv.WriteSpec{{Key: []byte(fmt.Sprintf("junk%02d", i)), Len: 2000}})
		}
		w.Flush()
		w.AdvanceWatermark()
		w.CompactForce(0, 1)
	}
	checkRetention(c, w, "before-gc")
	if !w.GC(0.001) {
		c.Inconclusive("merge-through-gc: GC did not rewrite a file")
		return
	}
	c.Eval(1)
	c.Count("retention.merge_gc_cases", 1)
	w.AdvanceWatermark()
	w.Flush()
	checkRetention(c, w, "after-gc")
	for l := 0; l < o.MaxLevels-1; l++ {
		if w.CompactForce(l, 1) {
			checkRetention(c, w, fmt.Sprintf("after-gc-compact-L%d", l))
		}
	}
	got, err := mop.Get()
	if err != nil || !bytes.Equal(got, want) {
		c.Violation("C13|merge-through-gc|folded-value", fmt.Sprintf("the merge operator folds %d bytes (err=%v) after GC + compaction, the %d operands added amount to %d bytes", len(got), err, nOps, len(want)), w.Witness())
	}
	c.Distinct(fmt.Sprintf("merge-through-gc|keep=%d", o.NumVersionsToKeep))
}
