package props

import (
	"bytes"
	"context"
	"fmt"
	"math/rand"
	"os"
	"path/filepath"
	"sort"
	"strings"
	"sync"
	"sync/atomic"
	"time"

	badger "github.com/dgraph-io/badger/v4"
	"github.com/dgraph-io/badger/v4/pb"

	"verif/h/core"
	"verif/h/gen"
	"verif/h/hist"
)

type subPattern struct {
	Prefix []byte
	Ignore map[int]bool
	IgStr  string
}

// matches is the reference matcher on the USER key: prefix with ignored byte positions.
func (p subPattern) matches(key []byte) bool {
	if len(key) < len(p.Prefix) {
		return false
	}
	for i, b := range p.Prefix {
		if !p.Ignore[i] && key[i] != b {
			return false
		}
	}
	return true
}

func genPattern(r *rand.Rand) subPattern {
	p := subPattern{Ignore: map[int]bool{}}
	switch r.Intn(6) {
	case 0: // empty prefix: everything
	default:
		p.Prefix = gen.Key(r, 5)
	}
	var parts []string
	for n := r.Intn(3); n > 0; n-- {
		a := r.Intn(8)
		if r.Intn(2) == 0 {
			b := a + r.Intn(3)
			parts = append(parts, fmt.Sprintf("%d-%d", a, b))
			for i := a; i <= b; i++ {
				p.Ignore[i] = true
			}
		} else {
			parts = append(parts, fmt.Sprintf("%d", a))
			p.Ignore[a] = true
		}
	}
	p.IgStr = strings.Join(parts, ",")
	return p
}

type subRec struct {
	pats []subPattern
	mu   sync.Mutex
	got  []*pb.KV
	err  error
}

// C32 subscribers get every matching committed write exactly once, in commit order.

// c32ReusedBuffer: a writer that re-uses its value buffer as soon as Commit has returned (allowed:
// "users must not modify key and val until the end of the transaction"). The subscriber must still
// receive the value that was committed.
func c32ReusedBuffer(c *core.Ctx, work string, idx int) {
	dir := filepath.Join(work, fmt.Sprintf("reuse%d", idx))
	_ = os.MkdirAll(dir, 0o755)
	defer os.RemoveAll(dir)
	r := c.Rand(fmt.Sprintf("c32-reuse-%d", idx))
	ov := hist.SmallOptions(dir, []int{0, 1, 6}[idx%3], r)
	db, err := badger.Open(ov.Opt)
	if err != nil {
		c.Inconclusive("open: " + err.Error())
		return
	}
	defer db.Close()
	ctx, cancel := context.WithCancel(context.Background())
	type got struct {
		ver uint64
		sum string
	}
	var mu sync.Mutex
	recv := map[string][]got{}
	done := make(chan struct{})
	go func() {
		defer close(done)
		_ = db.Subscribe(ctx, func(kvs *badger.KVList) error {
			mu.Lock()
			defer mu.Unlock()
			for _, kv := range kvs.Kv {
				recv[string(kv.Key)] = append(recv[string(kv.Key)], got{kv.Version, fmt.Sprintf("len=%d sum=%x", len(kv.Value), hist.Sum8(kv.Value))})
			}
			return nil
		}, []pb.Match{{Prefix: []byte("reuse-")}})
	}()
	for i := 0; i < 2000 && db.VerifSubscriberCount() == 0; i++ {
		time.Sleep(time.Millisecond)
	}
	n := 40 + r.Intn(60)
	size := []int{16, 200, 3000}[idx%3]
	buf := make([]byte, size)
	want := map[string]string{}
	for i := 0; i < n; i++ {
		for j := range buf {
			buf[j] = byte('A' + i%26)
		}
		k := fmt.Sprintf("reuse-%03d", i)
		want[k] = fmt.Sprintf("len=%d sum=%x", len(buf), hist.Sum8(buf))
		if err := db.Update(func(txn *badger.Txn) error { return txn.Set([]byte(k), buf) }); err != nil {
			c.Inconclusive("commit: " + err.Error())
			cancel()
			<-done
			return
		}
		// the transaction has ended: the buffer is the caller's again
		for j := range buf {
			buf[j] = '#'
		}
	}
	deadline := time.Now().Add(10 * time.Second)
	for time.Now().Before(deadline) {
		mu.Lock()
		l := len(recv)
		mu.Unlock()
		if l >= n {
			break
		}
		time.Sleep(5 * time.Millisecond)
	}
	cancel()
	<-done
	c.Eval(1)
	mu.Lock()
	defer mu.Unlock()
	bad, first := 0, ""
	for k, w := range want {
		g := recv[k]
		if len(g) != 1 {
			c.Violation("C32|reused-buffer|count", fmt.Sprintf("key %s delivered %d times", k, len(g)), ov.Name)
			continue
		}
		c.Count("sub.reused_buffer_kvs_checked", 1)
		if g[0].sum != w {
			bad++
			if first == "" || k < first {
				first = k
			}
		}
	}
	if bad > 0 {
		c.Violation("C32|reused-buffer|content", fmt.Sprintf("%d of %d sequential commits whose value buffer the writer re-used after Commit returned were delivered with the buffer's later contents, not the committed value (first: %s, value size %d)", bad, n, first, size), ov.Name)
	}
	c.Distinct(fmt.Sprintf("reused-buffer|%s|size=%d", ov.Name, size))
}

func C32(c *core.Ctx) {
	c.Rule("2-6 subscribers, each with 1-3 patterns (hostile prefixes of length 0-5 with 0-2 ignore ranges, also beyond the key length), are registered (confirmed through " +
		"the subscriber count) before 6 committers write hostile keys shorter and longer than the patterns (sets with meta/expiry and deletes); commit timestamps come from marker " +
		"keys; oracle per subscriber: the delivered KVs (internal !badger! keys ignored) must equal, as a multiset of (key, version, value digest, expiry), the committed writes " +
		"whose USER key matches one of its patterns under the reference matcher, versions must be non-decreasing in delivery order, and cancelling the context must end Subscribe; transient subscribers with random patterns subscribe and cancel every 1-5 ms during the run without disturbing the others; " +
		"distinct = (pattern shape, key-shorter-than-pattern, matched/unmatched) classes")
	work := c.WorkDir()
	defer os.RemoveAll(work)
	idx := 0
	for round := 0; round < c.Pick(30, 200); round++ {
		idx++
		r := c.Rand(fmt.Sprintf("c32-%d", idx))
		nSub := 2 + r.Intn(5)
		subs := make([]*subRec, nSub)
		for i := range subs {
			subs[i] = &subRec{}
			for n := 1 + r.Intn(3); n > 0; n-- {
				subs[i].pats = append(subs[i].pats, genPattern(r))
			}
		}
		ctx, cancel := context.WithCancel(context.Background())
		var swg, twg sync.WaitGroup
		stopTransient := make(chan struct{})
		var nTransient atomic.Int64
		var hungTransient atomic.Bool
		hr := HistRun{Variant: []int{0, 1, 6}[idx%3], NKeys: 40, MaxKey: 7,
			Mix: func(keys [][]byte) hist.Mix {
				m := hist.DefaultMix(keys)
				m.Clients = 6
				m.TxnsPerClient = c.Pick(60, 150)
				m.ROFrac, m.IterFrac, m.HeldFrac = 0, 0, 0
				m.MaxReads = 1
				m.BlindFrac = 1
				m.OwnReadFrac = 0
				m.DeleteFrac = 0.2
				m.MetaFrac = 0.4
				m.ValSizes = []int{24, 64, 65, 200}
				return m
			},
			OnStart: func(db *badger.DB, e *hist.Engine) {
				for i := range subs {
					s := subs[i]
					var ms []pb.Match
					for _, p := range s.pats {
						ms = append(ms, pb.Match{Prefix: p.Prefix, IgnoreBytes: p.IgStr})
					}
					swg.Add(1)
					go func() {
						defer swg.Done()
						err := db.Subscribe(ctx, func(kvs *badger.KVList) error {
							s.mu.Lock()
							s.got = append(s.got, kvs.Kv...)
							s.mu.Unlock()
							return nil
						}, ms)
						s.err = err
					}()
				}
				deadline := time.Now().Add(5 * time.Second)
				for db.VerifSubscriberCount() < nSub && time.Now().Before(deadline) {
					time.Sleep(time.Millisecond)
				}
				// transient subscribers come and go while the writers run: their unsubscription must
				// not disturb the deliveries of the permanent ones
				twg.Add(1)
				go func() {
					defer twg.Done()
					tr := c.Rand(fmt.Sprintf("c32-transient-%d", idx))
					for {
						select {
						case <-stopTransient:
							return
						default:
						}
						tctx, tcancel := context.WithCancel(context.Background())
						var ms []pb.Match
						for n := 1 + tr.Intn(2); n > 0; n-- {
							p := genPattern(tr)
							ms = append(ms, pb.Match{Prefix: p.Prefix, IgnoreBytes: p.IgStr})
						}
						done := make(chan struct{})
						go func() {
							_ = db.Subscribe(tctx, func(*badger.KVList) error { return nil }, ms)
							close(done)
						}()
						time.Sleep(time.Duration(1+tr.Intn(5)) * time.Millisecond)
						tcancel()
						select {
						case <-done:
							nTransient.Add(1)
						case <-time.After(10 * time.Second):
							hungTransient.Store(true)
							return
						}
					}
				}()
			},
			BeforeResolve: func() { close(stopTransient); twg.Wait() }}
		res, err := runHistory(c, work, idx, hr)
		if err != nil {
			cancel()
			c.Inconclusive(err.Error())
			continue
		}
		c.Eval(1)
		c.Count("sub.transient_subscribers_cancelled_mid_run", nTransient.Load())
		if hungTransient.Load() {
			c.Violation("C32|cancel-hangs", "Subscribe of a transient subscriber did not return within 10s after its context was cancelled", nil)
		}
		reportProbs(c, "C32", res.Probs, res.Name)
		// expected deliveries per subscriber
		type dkey struct {
			k   string
			ver uint64
		}
		var committed []*hist.TxnRec
		for _, t := range res.H.Txns {
			if t.CommitTs != 0 {
				committed = append(committed, t)
			}
		}
		sort.Slice(committed, func(i, j int) bool { return committed[i].CommitTs < committed[j].CommitTs })
		expect := make([]map[dkey]string, nSub)
		total := 0
		for i, s := range subs {
			expect[i] = map[dkey]string{}
			for _, t := range committed {
				for k, v := range t.Pending() {
					for _, p := range s.pats {
						if p.matches([]byte(k)) {
							val := v.Value()
							expect[i][dkey{k, t.CommitTs}] = fmt.Sprintf("len=%d sum=%x exp=%d meta=%d", len(val), hist.Sum8(val), v.ExpiresAt, v.UserMeta)
							short := false
							for _, q := range s.pats {
								if len(k) < len(q.Prefix) {
									short = true
								}
							}
							c.Distinct(fmt.Sprintf("match|plen=%d|ignore=%v|short-key-present=%v", len(p.Prefix), len(p.Ignore) > 0, short))
							break
						}
					}
				}
			}
			total += len(expect[i])
		}
		// wait for the asynchronous publisher to drain
		deadline := time.Now().Add(10 * time.Second)
		for time.Now().Before(deadline) {
			done := true
			for i, s := range subs {
				s.mu.Lock()
				n := 0
				for _, kv := range s.got {
					if !bytes.HasPrefix(kv.Key, []byte("!badger!")) {
						n++
					}
				}
				s.mu.Unlock()
				if n < len(expect[i]) {
					done = false
				}
			}
			if done {
				break
			}
			time.Sleep(5 * time.Millisecond)
		}
		time.Sleep(30 * time.Millisecond) // let any surplus delivery arrive
		for i, s := range subs {
			s.mu.Lock()
			got := append([]*pb.KV(nil), s.got...)
			s.mu.Unlock()
			var pats []string
			for _, p := range s.pats {
				pats = append(pats, fmt.Sprintf("prefix=%x ignore=%q", p.Prefix, p.IgStr))
			}
			info := map[string]any{"options": res.Name, "subscriber": i, "patterns": pats, "expected": len(expect[i]), "delivered": len(got)}
			seen := map[dkey]int{}
			var last uint64
			for _, kv := range got {
				if bytes.HasPrefix(kv.Key, []byte("!badger!")) {
					continue
				}
				c.Count("sub.kvs_checked", 1)
				dk := dkey{string(kv.Key), kv.Version}
				seen[dk]++
				if kv.Version < last {
					c.Violation("C32|order", fmt.Sprintf("subscriber %d received version %d after version %d", i, kv.Version, last), info)
				}
				last = kv.Version
				want, ok := expect[i][dk]
				if !ok {
					kind := "non-matching-key"
					for _, t := range committed {
						if t.CommitTs == kv.Version {
							if _, w := t.Pending()[string(kv.Key)]; !w {
								kind = "unwritten-key"
							}
						}
					}
					shorter := false
					for _, p := range s.pats {
						if len(kv.Key) < len(p.Prefix) {
							shorter = true
						}
					}
					info["key"] = fmt.Sprintf("%x", kv.Key)
					info["version"] = kv.Version
					c.Violation(fmt.Sprintf("C32|delivered-%s|key-shorter-than-a-pattern=%v", kind, shorter),
						fmt.Sprintf("subscriber %d received key %x (version %d) which matches none of its patterns %v", i, kv.Key, kv.Version, pats), info)
					continue
				}
				var meta byte
				if len(kv.Meta) > 0 {
					meta = kv.Meta[0]
				}
				gotS := fmt.Sprintf("len=%d sum=%x exp=%d meta=%d", len(kv.Value), hist.Sum8(kv.Value), kv.ExpiresAt, meta)
				if gotS != want {
					c.Violation("C32|content", fmt.Sprintf("subscriber %d: key %x@%d delivered as %s, written as %s", i, kv.Key, kv.Version, gotS, want), info)
				}
				if seen[dk] > 1 {
					c.Violation("C32|duplicate", fmt.Sprintf("subscriber %d received key %x@%d %d times", i, kv.Key, kv.Version, seen[dk]), info)
				}
			}
			for dk := range expect[i] {
				if seen[dk] == 0 {
					info["key"] = fmt.Sprintf("%x", dk.k)
					c.Violation("C32|missing", fmt.Sprintf("subscriber %d never received matching write %x@%d", i, dk.k, dk.ver), info)
					break
				}
			}
			if idx == 1 && i == 0 {
				c.Sample(info)
			}
		}
		c.Count("sub.expected_deliveries", int64(total))
		cancel()
		ch := make(chan struct{})
		go func() { swg.Wait(); close(ch) }()
		select {
		case <-ch:
		case <-time.After(10 * time.Second):
			c.Violation("C32|cancel-hangs", "Subscribe did not return within 10s after its context was cancelled", nil)
		}
		if n := res.DB.VerifSubscriberCount(); n != 0 {
			c.Violation("C32|subscriber-leak", fmt.Sprintf("%d subscribers still registered after cancellation", n), nil)
		}
		_ = res.DB.Close()
		_ = os.RemoveAll(res.Dir)
	}
	c.Rule("re-used buffers: one writer commits 40-100 sequential transactions from one value buffer (16 B / 200 B / 3000 B) which it overwrites as soon as Update has returned; " +
		"a subscriber on the prefix must receive, for every key, exactly one KV whose value digest is that of the committed value")
	for i := 0; i < c.Pick(3, 12); i++ {
		c32ReusedBuffer(c, work, i)
	}
	if c.Counter("sub.kvs_checked") == 0 {
		c.Inconclusive("nothing was delivered")
	}
	c.CheckRaces(nil, "", "")
	c.Assume("registration is confirmed through the verif-only subscriber count; the transaction end marker and other !badger! keys delivered to all-matching subscribers are outside the claim")
}
