package props

import (
	"bytes"
	"errors"
	"fmt"
	"math/rand"
	"os"
	"path/filepath"
	"time"

	badger "github.com/dgraph-io/badger/v4"

	"verif/h/core"
	"verif/h/drv"
	"verif/h/gen"
	"verif/h/hist"
	"verif/h/model"
	"verif/h/sched"
)

// gcWorld opens a driver-controlled DB whose first value-log file is full of garbage except for
// the given live keys, with discard statistics in place, so that RunValueLogGC rewrites file 1.
func gcWorld(c *core.Ctx, sig, dir string, r *rand.Rand, live []string, managed bool) *drv.World {
	o, _ := drvOptions(dir, 0)
	o.MemTableSize = 1 << 20
	o.ValueThreshold = 32
	o.ValueLogMaxEntries = 24
	o.MaxLevels = 3
	o.NumLevelZeroTables = 1
	db, err := drv.Open(o, managed)
	if err != nil {
		c.Inconclusive("open: " + err.Error())
		return nil
	}
	w := &drv.World{C: c, Sig: sig, DB: db, Opt: o, Managed: managed, M: model.New(), R: r, NextTs: 5}
	for _, k := range live {
		if _, err := w.Commit([]drv.WriteSpec{{Key: []byte(k), Len: 1500}}); err != nil {
			c.Inconclusive("commit: " + err.Error())
			return nil
		}
	}
	for i := 0; i < 18; i++ {
		_, _ = w.Commit([]drv.WriteSpec{{Key: []byte(fmt.Sprintf("junk%02d", i)), Len: 2000}})
	}
	w.Flush()
	w.CompactForce(0, 1)
	for i := 0; i < 18; i++ {
		_, _ = w.Commit([]drv.WriteSpec{{Key: []byte(fmt.Sprintf("junk%02d", i)), Len: 2000}})
	}
	w.Flush()
	w.SettleWatermark()
	if managed {
		w.Discard = w.NextTs - 1
		w.DB.SetDiscardTs(w.Discard)
	}
	w.CompactForce(0, 1) // drops the old junk versions and records discard statistics for file 1
	return w
}

// scenarioResurrect: a key deleted before GC comes back after GC + compaction.
func scenarioResurrect(c *core.Ctx, sigPrefix, work string, idx int, r *rand.Rand, managed bool) (ran bool) {
	dir := filepath.Join(work, fmt.Sprintf("res%d", idx))
	_ = os.MkdirAll(dir, 0o755)
	defer os.RemoveAll(dir)
	w := gcWorld(c, sigPrefix+"|scenario", dir, r, []string{"victim"}, managed)
	if w == nil {
		return false
	}
	defer func() { _ = w.DB.Close() }()
	if _, err := w.Commit([]drv.WriteSpec{{Key: []byte("victim"), Del: true}}); err != nil {
		return false
	}
	w.Flush()
	if !w.GC(0.001) {
		c.Inconclusive("scenario: GC did not rewrite a file")
		return false
	}
	w.SettleWatermark()
	if managed {
		w.Discard = w.NextTs - 1
		w.DB.SetDiscardTs(w.Discard)
	}
	w.CompactForce(0, 1)
	st := hist.CheckState(c, sigPrefix+"|scenario:delete-then-gc-then-compact", w.DB, w.M, hist.StateOpts{Managed: managed})
	_ = st
	return true
}

// scenarioOpenItem: an Item obtained by Txn.Get (or the current item of an open iterator) in a
// still-open transaction must keep yielding its value after GC rewrote (and deleted) its vlog file.
func scenarioOpenItem(c *core.Ctx, sigPrefix, work string, idx int, r *rand.Rand, viaIterator bool) (ran bool) {
	dir := filepath.Join(work, fmt.Sprintf("item%d", idx))
	_ = os.MkdirAll(dir, 0o755)
	defer os.RemoveAll(dir)
	w := gcWorld(c, sigPrefix+"|scenario", dir, r, []string{"held"}, false)
	if w == nil {
		return false
	}
	defer func() { _ = w.DB.Close() }()
	want := w.M.M["held"][0].Value()
	txn := w.DB.NewTransaction(false)
	defer txn.Discard()
	var item *badger.Item
	var it *badger.Iterator
	if viaIterator {
		io := badger.DefaultIteratorOptions
		io.PrefetchValues = false
		it = txn.NewIterator(io)
		defer it.Close()
		it.Seek([]byte("held"))
		if !it.Valid() {
			c.Inconclusive("scenario: iterator not positioned")
			return false
		}
		item = it.Item()
	} else {
		var err error
		if item, err = txn.Get([]byte("held")); err != nil {
			c.Inconclusive("scenario: get failed: " + err.Error())
			return false
		}
	}
	before := w.DB.VerifVlogFids()
	if !w.GC(0.001) {
		c.Inconclusive("scenario: GC did not rewrite a file")
		return false
	}
	after := w.DB.VerifVlogFids()
	got, err := item.ValueCopy(nil)
	how := "Txn.Get"
	if viaIterator {
		how = "open-iterator"
	}
	info := map[string]any{"item_from": how, "vlog_fids_before": before, "vlog_fids_after": after, "value_len": len(got), "want_len": len(want), "err": fmt.Sprint(err)}
	c.Count("gc.scenario.open_item."+how, 1)
	if err != nil || !bytes.Equal(got, want) {
		c.Violation(sigPrefix+"|scenario:item-of-open-txn-unreadable-after-gc|from="+how,
			fmt.Sprintf("an Item from %s in a still-open transaction returned %d bytes (err=%v) after RunValueLogGC rewrote its value-log file; want the original %d bytes", how, len(got), err, len(want)), info)
	}
	return true
}

// C15 value-log GC never changes, loses or resurrects data.
func C15(c *core.Ctx) {
	c.Rule("(1) driver histories with value-log-heavy values, small vlog files, garbage + compaction (discard statistics) and RunValueLogGC steps at ratios 0.001..0.9 in normal " +
		"and managed mode, read-invariance oracle (now, open snapshots, managed timestamps) after every GC and compaction; (2) recorded concurrent histories with a GC loop and " +
		"delays at gc.afterScan / gc.beforeDelete, with and without deletes; (3) deterministic scenarios: delete-then-GC-then-compact (deleted key must stay deleted), and Items " +
		"held by a still-open transaction (from Txn.Get, from an open iterator) across a rewrite of their value-log file; distinct = (family, mode, options, GC-rewrite-happened) classes")
	work := c.WorkDir()
	defer os.RemoveAll(work)
	r := c.Rand("c15")
	// (3) deterministic scenarios first: they decide the two listed findings on every run
	for i, managed := range []bool{false, true} {
		if scenarioResurrect(c, "C15", work, i, r, managed) {
			c.Eval(1)
			c.Distinct(fmt.Sprintf("scenario-resurrect|managed=%v", managed))
		}
	}
	for i, via := range []bool{false, true} {
		if scenarioOpenItem(c, "C15", work, i, r, via) {
			c.Eval(1)
			c.Distinct(fmt.Sprintf("scenario-open-item|iterator=%v", via))
		}
	}
	// (1) driver histories without deletes/expiry (so that the known resurrection cannot mask anything)
	gcSteps := 0
	n := c.Pick(16, 120)
	for i := 0; i < n; i++ {
		managed := i%3 == 2
		dir := filepath.Join(work, fmt.Sprintf("g%d", i))
		_ = os.MkdirAll(dir, 0o755)
		opt, name := drvOptions(dir, []int{0, 1, 2, 5}[i%4])
		opt.ValueThreshold = 32
		opt.ValueLogMaxEntries = uint32(12 + r.Intn(30))
		db, err := drv.Open(opt, managed)
		if err != nil {
			c.Inconclusive("open: " + err.Error())
			continue
		}
		withDeletes := i%4 == 3
		sig := "C15|driver|nodeletes"
		del, exp := 0.0, 0.0
		if withDeletes {
			sig = "C15|driver|deletes"
			del, exp = 0.2, 0.1
		}
		w := &drv.World{C: c, Sig: sig, DB: db, Opt: opt, Managed: managed, M: model.New(), R: r, Keys: gen.KeySet(r, 8+r.Intn(12), 6), NextTs: 5,
			ValSizes: []int{100, 400, 1500}}
		c.Eval(1)
		rewrote := 0
		for s := 0; s < c.Pick(260, 500) && c.Violations() == 0; s++ {
			step := ""
			switch x := r.Intn(100); {
			case x < 55:
				if err := w.RandomCommit(del, exp); err != nil {
					c.Violation(sig+"|commit-error", err.Error(), w.Witness())
				}
				continue
			case x < 67:
				if !w.Flush() {
					continue
				}
				step = "flush"
			case x < 80:
				ok, what := w.CompactPicked(r.Intn(3))
				if !ok {
					if !w.CompactForce(0, 1) {
						continue
					}
					what = "forced-L0"
				}
				step = "compact-" + what
			case x < 84:
				w.OpenSnapshot()
				continue
			case x < 88:
				w.CloseSnapshot()
				continue
			case x < 90:
				w.SetDiscardTs()
				continue
			default:
				if !w.GC([]float64{0.001, 0.05, 0.5, 0.9}[r.Intn(4)]) {
					if os.Getenv("VERIF_DEBUG") != "" {
						fmt.Println("DEBUG gc no rewrite; discard stats", w.DB.VerifDiscardStats(), "fids", w.DB.VerifVlogFids())
					}
					continue
				}
				step = "gc"
				rewrote++
			}
			st := w.CheckInvariance(step)
			c.Count("invariance.reads_checked", st.Gets+st.IterItems)
			c.Count("step."+step, 1)
		}
		gcSteps += rewrote
		w.CloseSnapshots()
		_ = w.DB.Close()
		_ = os.RemoveAll(dir)
		c.Distinct(fmt.Sprintf("driver|%s|managed=%v|deletes=%v|gc=%v", name, managed, withDeletes, rewrote > 0))
		if i < 2 {
			c.Sample(map[string]any{"family": "driver", "options": name, "gc_rewrites": rewrote, "last_steps": w.Steps[max(0, len(w.Steps)-20):]})
		}
	}
	// (2) concurrent histories with a GC loop
	gcDelays := commitDelays
	gcDelays.MaxSleep = 3 * time.Millisecond
	idx := 0
	for round := 0; round < c.Pick(1, 4); round++ {
		for _, v := range []int{0, 6, 3} {
			for _, deletes := range []bool{false, true} {
				idx++
				hr := HistRun{Variant: v, Sched: gcDelays, GC: true, NKeys: 16,
					Tweak: func(o *badger.Options) { o.ValueLogMaxEntries = 30; o.ValueThreshold = 32 },
					Mix: func(keys [][]byte) hist.Mix {
						m := hist.DefaultMix(keys)
						m.Clients = 8
						m.TxnsPerClient = c.Pick(200, 400)
						m.HeldFrac = 0.1
						m.ValSizes = []int{100, 700, 1500}
						if !deletes {
							m.DeleteFrac, m.ExpireFrac = 0, 0
						}
						return m
					}}
				res, err := runHistory(c, work, 1000+idx, hr)
				if err != nil {
					c.Inconclusive(err.Error())
					continue
				}
				c.Eval(1)
				tag := "C15|concurrent|nodeletes"
				if deletes {
					tag = "C15|concurrent|deletes"
				}
				reportProbs(c, tag, res.Probs, res.Name)
				st := hist.CheckReads(c, tag, res.H, res.M)
				addReadStats(c, st)
				addSchedCoverage(c, res.S)
				c.Count("gc.concurrent.calls", res.GCRuns)
				c.Count("gc.concurrent.rewrites", res.GCOK)
				gcSteps += int(res.GCOK)
				c.Distinct(fmt.Sprintf("concurrent|%s|deletes=%v|gc=%v", res.Name, deletes, res.GCOK > 0))
				_ = res.DB.Close()
				_ = os.RemoveAll(res.Dir)
			}
		}
	}
	c.Count("gc.rewrites_total", int64(gcSteps))
	if gcSteps == 0 {
		c.Inconclusive("no value-log file was ever rewritten")
	}
	c.CheckRaces(nil, "", "")
	c.Assume("histories that mix deletes/expiry with GC hit the listed resurrection finding and are classified by signature; GC needs discard statistics, which only compactions produce")
}

var _ = errors.Is
var _ = sched.Uninstall
