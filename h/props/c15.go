package props

import (
	"bytes"
	"errors"
	"fmt"
	"math/rand"
	"os"
	"path/filepath"
	"sync/atomic"
	"time"

	badger "github.com/dgraph-io/badger/v4"

	"verif/h/core"
	"verif/h/drv"
	"verif/h/gen"
	"verif/h/hist"
	"verif/h/model"
	"verif/h/sched"
)

// gcWorld opens a driver-controlled DB whose first value-log file is full of garbage except for
// the given live keys, with discard statistics in place, so that RunValueLogGC rewrites file 1.
func gcWorld(c *core.Ctx, sig, dir string, r *rand.Rand, live []string, managed bool) *drv.World {
	o, _ := drvOptions(dir, 0)
	o.MemTableSize = 1 << 20
	o.ValueThreshold = 32
	o.ValueLogMaxEntries = 24
	o.MaxLevels = 3
	o.NumLevelZeroTables = 1
	db, err := drv.Open(o, managed)
	if err != nil {
		c.Inconclusive("open: " + err.Error())
		return nil
	}
	w := &drv.World{C: c, Sig: sig, DB: db, Opt: o, Managed: managed, M: model.New(), R: r, NextTs: 5}
	for _, k := range live {
		if _, err := w.Commit([]drv.WriteSpec{{Key: []byte(k), Len: 1500}}); err != nil {
			c.Inconclusive("commit: " + err.Error())
			return nil
		}
	}
	for i := 0; i < 18; i++ {
		_, _ = w.Commit([]drv.WriteSpec{{Key: []byte(fmt.Sprintf("junk%02d", i)), Len: 2000}})
	}
	w.Flush()
	w.CompactForce(0, 1)
	for i := 0; i < 18; i++ {
		_, _ = w.Commit([]drv.WriteSpec{{Key: []byte(fmt.Sprintf("junk%02d", i)), Len: 2000}})
	}
	w.Flush()
	w.SettleWatermark()
	if managed {
		w.Discard = w.NextTs - 1
		w.DB.SetDiscardTs(w.Discard)
	}
	w.CompactForce(0, 1) // drops the old junk versions and records discard statistics for file 1
	return w
}

// scenarioResurrect: a key deleted before GC comes back after GC + compaction.
func scenarioResurrect(c *core.Ctx, sigPrefix, work string, idx int, r *rand.Rand, managed bool) (ran bool) {
	dir := filepath.Join(work, fmt.Sprintf("res%d", idx))
	_ = os.MkdirAll(dir, 0o755)
	defer os.RemoveAll(dir)
	w := gcWorld(c, sigPrefix+"|scenario", dir, r, []string{"victim"}, managed)
	if w == nil {
		return false
	}
	defer func() { _ = w.DB.Close() }()
	if _, err := w.Commit([]drv.WriteSpec{{Key: []byte("victim"), Del: true}}); err != nil {
		return false
	}
	w.Flush()
	if !w.GC(0.001) {
		c.Inconclusive("scenario: GC did not rewrite a file")
		return false
	}
	w.SettleWatermark()
	if managed {
		w.Discard = w.NextTs - 1
		w.DB.SetDiscardTs(w.Discard)
	}
	w.CompactForce(0, 1)
	st := hist.CheckState(c, sigPrefix+"|scenario:delete-then-gc-then-compact", w.DB, w.M, hist.StateOpts{Managed: managed})
	_ = st
	return true
}

// scenarioDeleteDuringRewrite: the key is deleted between the scan and the write-back of a GC rewrite
// (pause hook), the tombstone is flushed and compacted into a base level that is NOT the last level
// and has nothing overlapping below; the deleted key must stay deleted when GC returns. (No further
// compaction afterwards: that is the listed delete-then-gc-then-compact finding.)
func scenarioDeleteDuringRewrite(c *core.Ctx, sigPrefix, work string, idx int, r *rand.Rand) (ran bool) {
	dir := filepath.Join(work, fmt.Sprintf("during%d", idx))
	_ = os.MkdirAll(dir, 0o755)
	defer os.RemoveAll(dir)
	o, _ := drvOptions(dir, 0)
	o.MemTableSize = 1 << 20
	o.ValueThreshold = 32
	o.ValueLogMaxEntries = 24
	o.MaxLevels = 4 + idx%2
	o.NumLevelZeroTables = 1
	db, err := drv.Open(o, false)
	if err != nil {
		c.Inconclusive("open: " + err.Error())
		return false
	}
	sig := sigPrefix + "|scenario:delete-during-gc-rewrite"
	w := &drv.World{C: c, Sig: sig, DB: db, Opt: o, M: model.New(), R: r, NextTs: 5}
	defer func() { _ = w.DB.Close() }()
	// filler with inline values, pushed to the last level so that the base level moves above it
	for b := 0; b < 8; b++ {
		var specs []drv.WriteSpec
		for i := 0; i < 120; i++ {
			specs = append(specs, drv.WriteSpec{Key: []byte(fmt.Sprintf("a%02d-%04d", b, i)), Len: 24})
		}
		if _, err := w.Commit(specs); err != nil {
			c.Inconclusive("commit: " + err.Error())
			return false
		}
	}
	w.Flush()
	for i := 0; i < 12; i++ {
		moved := false
		for l := 0; l < o.MaxLevels-1; l++ {
			if w.CompactForce(l, 1) {
				moved = true
			}
		}
		if !moved {
			break
		}
	}
	// victim + junk in value-log file 1, garbage, discard statistics
	if _, err := w.Commit([]drv.WriteSpec{{Key: []byte("zvictim"), Len: 1500}}); err != nil {
		return false
	}
	for i := 0; i < 18; i++ {
		_, _ = w.Commit([]drv.WriteSpec{{Key: []byte(fmt.Sprintf("zjunk%02d", i)), Len: 2000}})
	}
	w.Flush()
	for i := 0; i < 18; i++ {
		_, _ = w.Commit([]drv.WriteSpec{{Key: []byte(fmt.Sprintf("zjunk%02d", i)), Len: 2000}})
	}
	w.Flush()
	w.SettleWatermark()
	w.CompactForce(0, 1)
	base := w.DB.VerifBaseLevel()
	if base >= o.MaxLevels-1 {
		c.Inconclusive(fmt.Sprintf("scenario delete-during-gc-rewrite: base level %d is the last level", base))
		return false
	}
	if os.Getenv("VERIF_DEBUG") != "" {
		fmt.Println("DEBUG before GC base=", base, w.Witness()["tables"])
	}
	var hookErr error
	fired := false
	w.DB.VerifSetGCPauseHook(func() {
		if fired {
			return
		}
		fired = true
		if _, err := w.Commit([]drv.WriteSpec{{Key: []byte("zvictim"), Del: true}}); err != nil {
			hookErr = err
			return
		}
		if !w.AdvanceWatermark() {
			hookErr = fmt.Errorf("the discard watermark did not reach the delete")
			return
		}
		w.Flush()
		if os.Getenv("VERIF_DEBUG") != "" {
			fmt.Println("DEBUG in hook before compaction", w.Witness()["tables"], "discardTs", w.DB.VerifDiscardTs())
		}
		w.CompactForce(0, 1)
		if os.Getenv("VERIF_DEBUG") != "" {
			fmt.Println("DEBUG in hook after compaction", w.Witness()["tables"])
		}
	})
	ok := w.GC(0.001)
	w.DB.VerifSetGCPauseHook(nil)
	if !ok || !fired || hookErr != nil {
		c.Inconclusive(fmt.Sprintf("scenario delete-during-gc-rewrite: GC rewrite=%v hook fired=%v err=%v", ok, fired, hookErr))
		return false
	}
	c.Count("gc.scenario.delete_during_rewrite", 1)
	c.Distinct(fmt.Sprintf("scenario:delete-during-gc-rewrite|base=L%d|levels=%d", base, o.MaxLevels))
	hist.CheckState(c, sig, w.DB, w.M, hist.StateOpts{})
	return true
}

// scenarioGCWhileFlushPending: GC writes a still-referenced older version back into the active
// memtable while the newest version of that key sits in an immutable memtable whose flush is held
// at a schedule point; every read must keep returning the newest version.
func scenarioGCWhileFlushPending(c *core.Ctx, sigPrefix, work string, idx int, r *rand.Rand) (ran bool) {
	dir := filepath.Join(work, fmt.Sprintf("pend%d", idx))
	_ = os.MkdirAll(dir, 0o755)
	defer os.RemoveAll(dir)
	sig := sigPrefix + "|scenario:gc-writeback-while-newer-version-awaits-flush"
	// keepInf: the older version stays referenced by the LSM tree, so GC has to move it
	o, _ := drvOptions(dir, 0)
	o.MemTableSize = 1 << 20
	o.ValueThreshold = 32
	o.ValueLogMaxEntries = 24
	o.MaxLevels = 3
	o.NumLevelZeroTables = 1
	o.NumVersionsToKeep = 1 << 30
	db, err := drv.Open(o, false)
	if err != nil {
		c.Inconclusive("open: " + err.Error())
		return false
	}
	w := &drv.World{C: c, Sig: sig, DB: db, Opt: o, M: model.New(), R: r, NextTs: 5}
	hold := make(chan struct{})
	var holding, held atomic.Bool
	sched.Install(sched.Config{OnPoint: func(name string) {
		if name == "flush.beforeCreate" && holding.Load() {
			held.Store(true)
			<-hold
		}
	}})
	released := false
	release := func() {
		if !released {
			released = true
			holding.Store(false)
			close(hold)
		}
	}
	defer func() {
		release()
		sched.Uninstall()
		_ = w.DB.Close()
	}()
	if _, err := w.Commit([]drv.WriteSpec{{Key: []byte("hot"), Len: 1500}}); err != nil {
		return false
	}
	for round := 0; round < 2; round++ {
		for i := 0; i < 18; i++ {
			_, _ = w.Commit([]drv.WriteSpec{{Key: []byte(fmt.Sprintf("junk%02d", i)), Len: 2000, Discard: round == 1}})
		}
		w.Flush()
		if round == 1 {
			w.AdvanceWatermark()
		}
		w.CompactForce(0, 1)
	}
	// newest version of hot goes into a memtable that is rotated but whose flush is held
	if _, err := w.Commit([]drv.WriteSpec{{Key: []byte("hot"), Len: 1700}}); err != nil {
		return false
	}
	holding.Store(true)
	if ok, err := w.DB.VerifRotateMemtable(); err != nil || !ok {
		c.Inconclusive(fmt.Sprintf("scenario gc-while-flush-pending: rotate ok=%v err=%v", ok, err))
		return false
	}
	deadline := time.Now().Add(5 * time.Second)
	for !held.Load() && time.Now().Before(deadline) {
		time.Sleep(time.Millisecond)
	}
	if !held.Load() {
		c.Inconclusive("scenario gc-while-flush-pending: the flusher did not reach the schedule point")
		return false
	}
	if !w.GC(0.001) {
		c.Inconclusive("scenario gc-while-flush-pending: GC did not rewrite a file")
		return false
	}
	c.Count("gc.scenario.gc_while_flush_pending", 1)
	c.Distinct("scenario:gc-writeback-while-newer-version-awaits-flush")
	hist.CheckState(c, sig+"|flush-held", w.DB, w.M, hist.StateOpts{})
	release()
	w.DB.VerifWaitFlushed(20 * time.Second)
	hist.CheckState(c, sig+"|after-flush", w.DB, w.M, hist.StateOpts{})
	return true
}

// scenarioOpenItem: an Item obtained by Txn.Get (or the current item of an open iterator) in a
// still-open transaction must keep yielding its value after GC rewrote (and deleted) its vlog file.
func scenarioOpenItem(c *core.Ctx, sigPrefix, work string, idx int, r *rand.Rand, viaIterator bool) (ran bool) {
	dir := filepath.Join(work, fmt.Sprintf("item%d", idx))
	_ = os.MkdirAll(dir, 0o755)
	defer os.RemoveAll(dir)
	w := gcWorld(c, sigPrefix+"|scenario", dir, r, []string{"held"}, false)
	if w == nil {
		return false
	}
	defer func() { _ = w.DB.Close() }()
	want := w.M.M["held"][0].Value()
	txn := w.DB.NewTransaction(false)
	defer txn.Discard()
	var item *badger.Item
	var it *badger.Iterator
	if viaIterator {
		io := badger.DefaultIteratorOptions
		io.PrefetchValues = false
		it = txn.NewIterator(io)
		defer it.Close()
		it.Seek([]byte("held"))
		if !it.Valid() {
			c.Inconclusive("scenario: iterator not positioned")
			return false
		}
		item = it.Item()
	} else {
		var err error
		if item, err = txn.Get([]byte("held")); err != nil {
			c.Inconclusive("scenario: get failed: " + err.Error())
			return false
		}
	}
	before := w.DB.VerifVlogFids()
	if !w.GC(0.001) {
		c.Inconclusive("scenario: GC did not rewrite a file")
		return false
	}
	after := w.DB.VerifVlogFids()
	got, err := item.ValueCopy(nil)
	how := "Txn.Get"
	if viaIterator {
		how = "open-iterator"
	}
	info := map[string]any{"item_from": how, "vlog_fids_before": before, "vlog_fids_after": after, "value_len": len(got), "want_len": len(want), "err": fmt.Sprint(err)}
	c.Count("gc.scenario.open_item."+how, 1)
	if err != nil || !bytes.Equal(got, want) {
		c.Violation(sigPrefix+"|scenario:item-of-open-txn-unreadable-after-gc|from="+how,
			fmt.Sprintf("an Item from %s in a still-open transaction returned %d bytes (err=%v) after RunValueLogGC rewrote its value-log file; want the original %d bytes", how, len(got), err, len(want)), info)
	}
	return true
}

// C15 value-log GC never changes, loses or resurrects data.
func C15(c *core.Ctx) {
	c.Rule("(1) driver histories with value-log-heavy values, small vlog files, garbage + compaction (discard statistics) and RunValueLogGC steps at ratios 0.001..0.9 in normal " +
		"and managed mode, read-invariance oracle (now, open snapshots, managed timestamps) after every GC and compaction; (2) recorded concurrent histories with a GC loop and " +
		"delays at gc.afterScan / gc.beforeDelete, with and without deletes; (3) deterministic scenarios: delete-then-GC-then-compact (deleted key must stay deleted), and Items " +
		"held by a still-open transaction (from Txn.Get, from an open iterator) across a rewrite of their value-log file; distinct = (family, mode, options, GC-rewrite-happened) classes")
	work := c.WorkDir()
	defer os.RemoveAll(work)
	r := c.Rand("c15")
	// (3) deterministic scenarios first: they decide the two listed findings on every run
	for i := 0; i < c.Pick(2, 8); i++ {
		scenarioDeleteDuringRewrite(c, "C15", work, i, r)
	}
	for i := 0; i < c.Pick(1, 4); i++ {
		scenarioGCWhileFlushPending(c, "C15", work, i, r)
	}
	for i, managed := range []bool{false, true} {
		if scenarioResurrect(c, "C15", work, i, r, managed) {
			c.Eval(1)
			c.Distinct(fmt.Sprintf("scenario-resurrect|managed=%v", managed))
		}
	}
	for i, via := range []bool{false, true} {
		if scenarioOpenItem(c, "C15", work, i, r, via) {
			c.Eval(1)
			c.Distinct(fmt.Sprintf("scenario-open-item|iterator=%v", via))
		}
	}
	// (1) driver histories without deletes/expiry (so that the known resurrection cannot mask anything)
	gcSteps := 0
	n := c.Pick(16, 120)
	for i := 0; i < n; i++ {
		managed := i%3 == 2
		dir := filepath.Join(work, fmt.Sprintf("g%d", i))
		_ = os.MkdirAll(dir, 0o755)
		opt, name := drvOptions(dir, []int{0, 1, 2, 5}[i%4])
		opt.ValueThreshold = 32
		opt.ValueLogMaxEntries = uint32(12 + r.Intn(30))
		db, err := drv.Open(opt, managed)
		if err != nil {
			c.Inconclusive("open: " + err.Error())
			continue
		}
		withDeletes := i%4 == 3
		sig := "C15|driver|nodeletes"
		del, exp := 0.0, 0.0
		if withDeletes {
			sig = "C15|driver|deletes"
			del, exp = 0.2, 0.1
		}
		w := &drv.World{C: c, Sig: sig, DB: db, Opt: opt, Managed: managed, M: model.New(), R: r, Keys: gen.KeySet(r, 8+r.Intn(12), 6), NextTs: 5,
			ValSizes: []int{100, 400, 1500}}
		c.Eval(1)
		rewrote := 0
		for s := 0; s < c.Pick(260, 500) && c.Violations() == 0; s++ {
			step := ""
			switch x := r.Intn(100); {
			case x < 55:
				if err := w.RandomCommit(del, exp); err != nil {
					c.Violation(sig+"|commit-error", err.Error(), w.Witness())
				}
				continue
			case x < 67:
				if !w.Flush() {
					continue
				}
				step = "flush"
			case x < 80:
				ok, what := w.CompactPicked(r.Intn(3))
				if !ok {
					if !w.CompactForce(0, 1) {
						continue
					}
					what = "forced-L0"
				}
				step = "compact-" + what
			case x < 84:
				w.OpenSnapshot()
				continue
			case x < 88:
				w.CloseSnapshot()
				continue
			case x < 90:
				w.SetDiscardTs()
				continue
			default:
				if !w.GC([]float64{0.001, 0.05, 0.5, 0.9}[r.Intn(4)]) {
					if os.Getenv("VERIF_DEBUG") != "" {
						fmt.Println("DEBUG gc no rewrite; discard stats", w.DB.VerifDiscardStats(), "fids", w.DB.VerifVlogFids())
					}
					continue
				}
				step = "gc"
				rewrote++
			}
			// the listed GC-resurrection finding needs a GC rewrite: before the first one a deleted
			// key coming back is something else and keeps its own signature
			if withDeletes && rewrote == 0 {
				w.Sig = "C15|driver|deletes-before-any-gc-rewrite"
			} else {
				w.Sig = sig
			}
			st := w.CheckInvariance(step)
			c.Count("invariance.reads_checked", st.Gets+st.IterItems)
			c.Count("step."+step, 1)
		}
		gcSteps += rewrote
		w.CloseSnapshots()
		_ = w.DB.Close()
		_ = os.RemoveAll(dir)
		c.Distinct(fmt.Sprintf("driver|%s|managed=%v|deletes=%v|gc=%v", name, managed, withDeletes, rewrote > 0))
		if i < 2 {
			c.Sample(map[string]any{"family": "driver", "options": name, "gc_rewrites": rewrote, "last_steps": w.Steps[max(0, len(w.Steps)-20):]})
		}
	}
	// (2) concurrent histories with a GC loop
	gcDelays := commitDelays
	gcDelays.MaxSleep = 3 * time.Millisecond
	idx := 0
	for round := 0; round < c.Pick(1, 4); round++ {
		for _, v := range []int{0, 6, 3} {
			for _, deletes := range []bool{false, true} {
				idx++
				hr := HistRun{Variant: v, Sched: gcDelays, GC: true, NKeys: 16,
					Tweak: func(o *badger.Options) { o.ValueLogMaxEntries = 30; o.ValueThreshold = 32 },
					Mix: func(keys [][]byte) hist.Mix {
						m := hist.DefaultMix(keys)
						m.Clients = 8
						m.TxnsPerClient = c.Pick(200, 400)
						m.HeldFrac = 0.1
						m.ValSizes = []int{100, 700, 1500}
						if !deletes {
							m.DeleteFrac, m.ExpireFrac = 0, 0
						}
						return m
					}}
				res, err := runHistory(c, work, 1000+idx, hr)
				if err != nil {
					c.Inconclusive(err.Error())
					continue
				}
				c.Eval(1)
				tag := "C15|concurrent|nodeletes"
				if deletes {
					tag = "C15|concurrent|deletes"
					if res.GCOK == 0 {
						tag = "C15|concurrent|deletes-without-any-gc-rewrite" // not the listed finding: that one needs a rewrite
					}
				}
				reportProbs(c, tag, res.Probs, res.Name)
				st := hist.CheckReads(c, tag, res.H, res.M)
				addReadStats(c, st)
				addSchedCoverage(c, res.S)
				c.Count("gc.concurrent.calls", res.GCRuns)
				c.Count("gc.concurrent.rewrites", res.GCOK)
				gcSteps += int(res.GCOK)
				c.Distinct(fmt.Sprintf("concurrent|%s|deletes=%v|gc=%v", res.Name, deletes, res.GCOK > 0))
				_ = res.DB.Close()
				_ = os.RemoveAll(res.Dir)
			}
		}
	}
	c.Count("gc.rewrites_total", int64(gcSteps))
	if gcSteps == 0 {
		c.Inconclusive("no value-log file was ever rewritten")
	}
	c.CheckRaces(nil, "", "")
	c.Assume("histories that mix deletes/expiry with GC hit the listed resurrection finding and are classified by signature; GC needs discard statistics, which only compactions produce")
}

var _ = errors.Is
var _ = sched.Uninstall
