package props

import (
	"fmt"
	"os"
	"time"

	"verif/h/core"
	"verif/h/hist"
	"verif/h/sched"
)

var commitDelays = sched.Config{Prob: 0.04, MaxSleep: 1500 * time.Microsecond, ProbBy: map[string]float64{
	"commit.afterTs": 0.15, "commit.beforeDone": 0.15, "write.afterVlog": 0.15, "write.beforeAck": 0.1, "readts.beforeWait": 0.1,
	"flush.beforeAdd": 0.5, "flush.beforePop": 0.5, "compact.afterManifest": 0.5, "compact.afterReplace": 0.5, "gc.afterScan": 0.5, "gc.beforeDelete": 0.5}}

// C01 snapshot reads under concurrent commits, flushes, compactions and GC.
func C01(c *core.Ctx) {
	c.Rule("N recorded concurrent histories (8-12 clients, 16-32 hostile keys, RO/RW/long-lived snapshot transactions; Get and iterators with " +
		"prefix/seek/reverse/SinceTs/prefetch variants) per option variant, with tiny memtables, 3 background compactors, a value-log GC loop and " +
		"seeded delays at commit/flush/compaction/GC schedule points; every read is compared offline with Visible(key, readTs) of the MVCC model " +
		"built from marker-resolved commit timestamps; plus two deterministic GC/flush interleavings (GC write-back of an older version while the newest version " +
		"awaits its held flush; delete + compaction between GC scan and write-back); distinct = (option variant, iterator shape or get) x (result class) seen with at least one checked read")
	work := c.WorkDir()
	defer os.RemoveAll(work)
	variants := []int{0, 1, 2, 3, 4, 5, 6, 7, 8, 9}
	rounds := c.Pick(1, 6)
	idx := 0
	for round := 0; round < rounds; round++ {
		for _, v := range variants {
			idx++
			gc := idx%2 == 0
			hr := HistRun{Variant: v, Sched: commitDelays, GC: gc, NKeys: 16 + (idx%3)*8,
				Mix: func(keys [][]byte) hist.Mix {
					m := hist.DefaultMix(keys)
					m.Clients = 8 + idx%5
					m.TxnsPerClient = c.Pick(160, 300)
					m.SinceTs = true
					m.HeldFrac = 0.08
					return m
				}}
			res, err := runHistory(c, work, idx, hr)
			if err != nil {
				c.Inconclusive(err.Error())
				continue
			}
			c.Eval(1)
			sig := "C01|" + res.Name
			reportProbs(c, "C01", res.Probs, res.Name)
			tag := "C01|nogc"
			if gc && res.GCOK > 0 {
				tag = "C01|gc" // only histories in which GC rewrote a file can show the listed GC finding
			} else if gc {
				tag = "C01|gc-loop-without-rewrite"
			}
			st := hist.CheckReads(c, tag, res.H, res.M)
			_ = sig
			addReadStats(c, st)
			addSchedCoverage(c, res.S)
			c.Count("gc.calls", res.GCRuns)
			c.Count("gc.rewrites", res.GCOK)
			for _, t := range res.H.Txns {
				for _, rr := range t.Reads {
					if rr.Kind == "get" {
						c.Distinct(fmt.Sprintf("%s|get|found=%v|own=%v", res.Name, rr.Found, rr.Own != nil))
					} else {
						c.Distinct(fmt.Sprintf("%s|iter|rev=%v|prefix=%v|since=%v|keyiter=%v|n=%d", res.Name, rr.Opts.Reverse, len(rr.Opts.Prefix) > 0, rr.Opts.SinceTs > 0, rr.Opts.OnlyKey != nil, min(len(rr.Items), 3)))
					}
				}
			}
			for _, b := range res.S.OracleViolations() {
				c.Violation("C01|oracle-inflight", b, res.Name)
			}
			if idx <= 2 {
				c.Sample(histSample(res))
			}
			_ = res.DB.Close()
			_ = os.RemoveAll(res.Dir)
		}
	}
	// deterministic GC / flush interleavings (shared with C15): a GC write-back of an older version
	// while the newest one awaits its flush, and a delete between GC scan and write-back
	r := c.Rand("c01-scenarios")
	for i := 0; i < c.Pick(1, 4); i++ {
		if scenarioGCWhileFlushPending(c, "C01", work, i, r) {
			c.Eval(1)
		}
		if scenarioDeleteDuringRewrite(c, "C01", work, i, r) {
			c.Eval(1)
		}
	}
	for _, need := range []string{"reads.gets_found", "reads.iterator_items", "readts_grants_while_commit_in_flight", "ev.memtable.rotate", "ev.compact.shape"} {
		if c.Counter(need) == 0 {
			c.Inconclusive("coverage threshold not met: " + need + " = 0")
		}
	}
	c.CheckRaces(nil, "", "")
	c.Assume("only interleavings produced by the scheduler plus injected delays; AllVersions iteration is checked in C05 where the discard watermark is pinned")
}
