package props

import (
	"errors"
	"fmt"
	"os"

	badger "github.com/dgraph-io/badger/v4"

	"verif/h/core"
	"verif/h/drv"
	"verif/h/gen"
)

// maxStoredVersion scans every entry, including internal keys, and returns the largest version.
func maxStoredVersion(db *badger.DB) uint64 {
	txn := db.NewTransaction(false)
	defer txn.Discard()
	io := badger.DefaultIteratorOptions
	io.AllVersions = true
	io.InternalAccess = true
	io.PrefetchValues = false
	it := txn.NewIterator(io)
	defer it.Close()
	var m uint64
	for it.Rewind(); it.Valid(); it.Next() {
		if v := it.Item().Version(); v > m {
			m = v
		}
	}
	return m
}

// checkNewCommitAbove commits a write to key k and asserts that its version exceeds every stored
// version seen before, and that it is what a new read returns.
func checkNewCommitAbove(c *core.Ctx, sig string, db *badger.DB, k []byte, tok string, wit any) {
	// a read transaction opened before the scan pins nothing it needs; the scan itself is at the newest ts
	m := maxStoredVersion(db)
	val := gen.Expand(tok, 40)
	if err := db.Update(func(txn *badger.Txn) error { return txn.Set(k, val) }); err != nil {
		c.Violation(sig+"|commit-error", err.Error(), wit)
		return
	}
	err := db.View(func(txn *badger.Txn) error {
		it, err := txn.Get(k)
		if err != nil {
			return err
		}
		v, _ := it.ValueCopy(nil)
		c.Count("ts.new_commits_checked", 1)
		if it.Version() <= m {
			c.Violation(sig+"|new-commit-not-above-stored-versions", fmt.Sprintf("new commit got version %d, but a stored entry has version %d", it.Version(), m), wit)
		}
		if string(v) != string(val) {
			c.Violation(sig+"|stale-read-after-new-commit", fmt.Sprintf("a read after the new commit returns another value (version %d)", it.Version()), wit)
		}
		return nil
	})
	if err != nil && !errors.Is(err, badger.ErrKeyNotFound) {
		c.Violation(sig+"|read-error", err.Error(), wit)
	} else if errors.Is(err, badger.ErrKeyNotFound) {
		c.Violation(sig+"|stale-read-after-new-commit", "the newly committed key is not visible", wit)
	}
}

// C11 commits after any re-open get timestamps above every stored version (clean-close and DropAll
// variants here; crash, Load and StreamWriter variants are run by C08, C24 and C26 with the same oracle).
func C11(c *core.Ctx) {
	c.Rule("driver histories (commits, flushes, compactions leaving data in memtable WALs, L0 and deeper levels) followed by clean close/re-open cycles and DropAll; after " +
		"each, the maximum version over an InternalAccess+AllVersions scan is taken, a new transaction overwrites an existing key, and its version must exceed that maximum " +
		"and its value must be what the next read returns; the same oracle runs after crash recovery (C08), Load (C24) and StreamWriter.Flush (C26); distinct = (options, " +
		"kind of re-open, where the newest version lived: memtable WAL / L0 / deeper level)")
	work := c.WorkDir()
	defer os.RemoveAll(work)
	// after StreamWriter.Flush (concurrent Write calls, non-managed): contents and the first new commit
	// are judged by the C26 machinery, reported here under C11
	rs := c.Rand("c11-streamwriter")
	for j := 0; j < c.Pick(4, 24); j++ {
		c26Run(c, "C11|streamwriter", work, 8*j+5, rs)
	}
	r := c.Rand("c11")
	n := c.Pick(24, 200)
	for i := 0; i < n; i++ {
		where := []string{"wal", "l0", "deep"}[i%3]
		driverRunX(c, "C11", work, i, false, r, c.Pick(120, 250), false, nil, func(w *drv.World, step string) {
			if step != "end" {
				return
			}
			w.CloseSnapshots()
			switch where {
			case "wal":
				_ = w.RandomCommit(0.1, 0)
			case "l0":
				_ = w.RandomCommit(0.1, 0)
				w.Flush()
			default:
				_ = w.RandomCommit(0.1, 0)
				w.Flush()
				for j := 0; j < 4 && w.CompactForce(0, 1); j++ {
				}
			}
			for cy := 0; cy < 2; cy++ {
				if err := w.DB.Close(); err != nil {
					c.Violation("C11|close-error", err.Error(), nil)
					return
				}
				db, err := drv.Open(w.Opt, false)
				if err != nil {
					c.Violation("C11|reopen-error", err.Error(), w.Witness())
					db, _ = drv.Open(w.Opt, false)
					w.DB = db
					return
				}
				w.DB = db
				k := w.Keys[w.R.Intn(len(w.Keys))]
				checkNewCommitAbove(c, "C11|clean-reopen", w.DB, k, fmt.Sprintf("n%d.%d", i, cy), w.Witness())
				// keep the model in step
				w.M.Put(string(k), modelVerTok(w.DB.VerifNextTxnTs()-1, fmt.Sprintf("n%d.%d", i, cy), 40))
			}
			if i%2 == 0 {
				if err := w.DB.DropAll(); err != nil {
					c.Violation("C11|dropall-error", err.Error(), nil)
					return
				}
				w.M.M = map[string][]modelVer{}
				k := w.Keys[0]
				checkNewCommitAbove(c, "C11|after-dropall", w.DB, k, fmt.Sprintf("d%d", i), nil)
				w.M.Put(string(k), modelVerTok(w.DB.VerifNextTxnTs()-1, fmt.Sprintf("d%d", i), 40))
				_ = w.DB.Close()
				db, err := drv.Open(w.Opt, false)
				if err != nil {
					c.Violation("C11|reopen-after-dropall-error", err.Error(), nil)
					db, _ = drv.Open(w.Opt, false)
					w.DB = db
					return
				}
				w.DB = db
				checkNewCommitAbove(c, "C11|reopen-after-dropall", w.DB, k, fmt.Sprintf("e%d", i), nil)
				w.M.Put(string(k), modelVerTok(w.DB.VerifNextTxnTs()-1, fmt.Sprintf("e%d", i), 40))
				c.Count("ts.dropall_cycles", 1)
			}
			c.Distinct(fmt.Sprintf("where=%s|dropall=%v|variant=%d", where, i%2 == 0, i%6))
		})
	}
	if c.Counter("ts.new_commits_checked") == 0 {
		c.Inconclusive("nothing checked")
	}
	c.Sample(map[string]any{"step": "M = max version over InternalAccess+AllVersions scan; Update(Set k); Get(k).Version() must be > M and return the new value"})
	c.Assume("normal mode only (in managed mode the caller chooses timestamps)")
}
