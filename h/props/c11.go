package props

import (
	"bytes"
	"errors"
	"fmt"
	"math/rand"
	"os"
	"path/filepath"
	"time"

	badger "github.com/dgraph-io/badger/v4"
	"github.com/dgraph-io/badger/v4/pb"

	"verif/h/core"
	"verif/h/drv"
	"verif/h/gen"
)

// maxStoredVersion scans every entry, including internal keys, and returns the largest version.
func maxStoredVersion(db *badger.DB) uint64 {
	txn := db.NewTransaction(false)
	defer txn.Discard()
	io := badger.DefaultIteratorOptions
	io.AllVersions = true
	io.InternalAccess = true
	io.PrefetchValues = false
	it := txn.NewIterator(io)
	defer it.Close()
	var m uint64
	for it.Rewind(); it.Valid(); it.Next() {
		if v := it.Item().Version(); v > m {
			m = v
		}
	}
	return m
}

// checkNewCommitAbove commits a write to key k and asserts that its version exceeds every stored
// version seen before, and that it is what a new read returns.
func checkNewCommitAbove(c *core.Ctx, sig string, db *badger.DB, k []byte, tok string, wit any) {
	checkNewCommitAboveFloor(c, sig, db, k, tok, wit, 0)
}

// checkNewCommitAboveFloor: floor is the largest version known to be stored from before the re-open
// (the scan after the re-open reads at the new read timestamp and cannot see versions above it).
func checkNewCommitAboveFloor(c *core.Ctx, sig string, db *badger.DB, k []byte, tok string, wit any, floor uint64) {
	// a read transaction opened before the scan pins nothing it needs; the scan itself is at the newest ts
	m := maxStoredVersion(db)
	if floor > m {
		m = floor
	}
	val := gen.Expand(tok, 40)
	if err := db.Update(func(txn *badger.Txn) error { return txn.Set(k, val) }); err != nil {
		c.Violation(sig+"|commit-error", err.Error(), wit)
		return
	}
	err := db.View(func(txn *badger.Txn) error {
		it, err := txn.Get(k)
		if err != nil {
			return err
		}
		v, _ := it.ValueCopy(nil)
		c.Count("ts.new_commits_checked", 1)
		if it.Version() <= m {
			c.Violation(sig+"|new-commit-not-above-stored-versions", fmt.Sprintf("new commit got version %d, but a stored entry has version %d", it.Version(), m), wit)
		}
		if string(v) != string(val) {
			c.Violation(sig+"|stale-read-after-new-commit", fmt.Sprintf("a read after the new commit returns another value (version %d)", it.Version()), wit)
		}
		return nil
	})
	if err != nil && !errors.Is(err, badger.ErrKeyNotFound) {
		c.Violation(sig+"|read-error", err.Error(), wit)
	} else if errors.Is(err, badger.ErrKeyNotFound) {
		c.Violation(sig+"|stale-read-after-new-commit", "the newly committed key is not visible", wit)
	}
}

// c11LoadCrash: entries that reach a database without the transaction machinery (DB.Load, KVLoader:
// they keep the versions they had in the source) and live only in a memtable WAL when the process
// dies. The crash image is a copy of the live directory (what a killed process leaves in the page
// cache); after its re-open the first commit must be above everything loaded, and must be what the
// following reads return once a few more commits have moved the read timestamp on.
func c11LoadCrash(c *core.Ctx, work string, idx int, r *rand.Rand) {
	src := filepath.Join(work, fmt.Sprintf("lc-src%d", idx))
	dst := filepath.Join(work, fmt.Sprintf("lc-dst%d", idx))
	img := filepath.Join(work, fmt.Sprintf("lc-img%d", idx))
	defer func() { os.RemoveAll(src); os.RemoveAll(dst); os.RemoveAll(img) }()
	mk := func(dir string) badger.Options {
		_ = os.MkdirAll(dir, 0o755)
		o, _ := drvOptions(dir, idx)
		o.NumCompactors = 0
		o.MemTableSize = 4 << 20 // what is loaded stays in the memtable WAL
		o.ValueThreshold = []int64{32, 1 << 10}[idx%2]
		return o
	}
	sdb, err := badger.Open(mk(src))
	if err != nil {
		c.Inconclusive("open: " + err.Error())
		return
	}
	nSrc := 15 + r.Intn(60)
	for i := 0; i < nSrc; i++ {
		k := []byte(fmt.Sprintf("key-%02d", r.Intn(20)))
		_ = sdb.Update(func(txn *badger.Txn) error {
			if r.Intn(8) == 0 {
				return txn.Delete(k)
			}
			return txn.Set(k, gen.Expand(fmt.Sprintf("s%d.%d", idx, i), 20+r.Intn(200)))
		})
	}
	var buf bytes.Buffer
	_, err = sdb.Backup(&buf, 0)
	// the same content as a list of KVs (newest version of every live key) for the KVLoader variant
	var kvs []*pb.KV
	_ = sdb.View(func(txn *badger.Txn) error {
		it := txn.NewIterator(badger.DefaultIteratorOptions)
		defer it.Close()
		for it.Rewind(); it.Valid(); it.Next() {
			v, _ := it.Item().ValueCopy(nil)
			kvs = append(kvs, &pb.KV{Key: it.Item().KeyCopy(nil), Value: v, Version: it.Item().Version(), UserMeta: []byte{it.Item().UserMeta()}})
		}
		return nil
	})
	_ = sdb.Close()
	if err != nil {
		c.Inconclusive("backup: " + err.Error())
		return
	}
	do := mk(dst)
	ddb, err := badger.Open(do)
	if err != nil {
		c.Inconclusive("open: " + err.Error())
		return
	}
	// the target may already hold a few (older) commits of its own, flushed to a table or not
	pre := []int{0, 3, 8}[idx%3]
	for i := 0; i < pre; i++ {
		_ = ddb.Update(func(txn *badger.Txn) error { return txn.Set([]byte(fmt.Sprintf("own-%d", i)), []byte("own")) })
	}
	if pre > 0 && idx%2 == 0 {
		_, _ = ddb.VerifRotateMemtable()
		ddb.VerifWaitFlushed(10 * time.Second)
	}
	how := "load"
	if idx%4 == 3 {
		// the same entries through a KVLoader fed from a stream of the backup's contents
		how = "kvloader"
	}
	if how == "kvloader" {
		ld := ddb.NewKVLoader(1 + r.Intn(16))
		for _, kv := range kvs {
			if err == nil {
				err = ld.Set(kv)
			}
		}
		if e := ld.Finish(); err == nil {
			err = e
		}
	} else {
		err = ddb.Load(bytes.NewReader(buf.Bytes()), 1+r.Intn(16))
	}
	if err != nil {
		c.Violation("C11|load-crash|load-error", err.Error(), nil)
		_ = ddb.Close()
		return
	}
	loadedMax := maxStoredVersion(ddb)
	if err := copyDirE(dst, img); err != nil {
		c.Inconclusive("image copy: " + err.Error())
		_ = ddb.Close()
		return
	}
	_ = ddb.Close()
	io := mk(img)
	idb, err := badger.Open(io)
	if err != nil {
		c.Violation("C11|load-crash|reopen-error", err.Error(), nil)
		return
	}
	defer idb.Close()
	c.Eval(1)
	wit := map[string]any{"source_commits": nSrc, "own_commits_before_load": pre, "how": how, "max_version_loaded": loadedMax, "value_threshold": io.ValueThreshold}
	if m := maxStoredVersion(idb); m < loadedMax {
		// part of what was loaded may be lost with the process (nothing was synced): then this case says nothing
		c.Count("ts.load_crash_images_that_lost_entries", 1)
	}
	k := []byte(fmt.Sprintf("key-%02d", r.Intn(20)))
	checkNewCommitAbove(c, "C11|load-crash", idb, k, fmt.Sprintf("lc%d", idx), wit)
	want := gen.Expand(fmt.Sprintf("lc%d", idx), 40)
	for i := 0; i < 5+r.Intn(40); i++ {
		_ = idb.Update(func(txn *badger.Txn) error { return txn.Set([]byte(fmt.Sprintf("later-%d", i)), []byte("x")) })
	}
	err = idb.View(func(txn *badger.Txn) error {
		it, err := txn.Get(k)
		if err != nil {
			return err
		}
		v, _ := it.ValueCopy(nil)
		if string(v) != string(want) {
			c.Violation("C11|load-crash|stale-read-after-more-commits", fmt.Sprintf("key %s: after further commits a read returns version %d with another value than the one committed after the re-open", k, it.Version()), wit)
		}
		return nil
	})
	if err != nil {
		c.Violation("C11|load-crash|stale-read-after-more-commits", fmt.Sprintf("key %s committed after the re-open: %v", k, err), wit)
	}
	c.Count("ts.load_crash_cases", 1)
	c.Distinct(fmt.Sprintf("load-crash|%s|own=%d|flushed=%v|vt=%d", how, pre, pre > 0 && idx%2 == 0, io.ValueThreshold))
}

// C11 commits after any re-open get timestamps above every stored version (clean-close and DropAll
// variants here; crash, Load and StreamWriter variants are run by C08, C24 and C26 with the same oracle).
func C11(c *core.Ctx) {
	c.Rule("driver histories (commits, flushes, compactions leaving data in memtable WALs, L0 and deeper levels) followed by clean close/re-open cycles and DropAll; after " +
		"each, the maximum version over an InternalAccess+AllVersions scan (before Close and after Open) is taken, a new transaction overwrites an existing key, and its version must exceed that maximum " +
		"and its value must be what the next read returns; Load-then-crash cases: a backup is loaded into a database (empty, or with a few own commits flushed or not), the live " +
		"directory is copied as the image a killed process leaves, the image is opened and the same oracle runs, followed by more commits and a re-read; the same oracle runs after crash recovery (C08), Load (C24) and StreamWriter.Flush (C26); distinct = (options, " +
		"kind of re-open, where the newest version lived: memtable WAL / L0 / deeper level)")
	work := c.WorkDir()
	defer os.RemoveAll(work)
	// after StreamWriter.Flush (concurrent Write calls, non-managed): contents and the first new commit
	// are judged by the C26 machinery, reported here under C11
	rs := c.Rand("c11-streamwriter")
	for j := 0; j < c.Pick(4, 24); j++ {
		c26Run(c, "C11|streamwriter", work, 8*j+5, rs)
	}
	rl := c.Rand("c11-load-crash")
	for j := 0; j < c.Pick(12, 120); j++ {
		c11LoadCrash(c, work, j, rl)
	}
	r := c.Rand("c11")
	n := c.Pick(24, 200)
	for i := 0; i < n; i++ {
		where := []string{"wal", "l0", "deep"}[i%3]
		driverRunX(c, "C11", work, i, false, r, c.Pick(120, 250), false, nil, func(w *drv.World, step string) {
			if step != "end" {
				return
			}
			w.CloseSnapshots()
			switch where {
			case "wal":
				_ = w.RandomCommit(0.1, 0)
			case "l0":
				_ = w.RandomCommit(0.1, 0)
				w.Flush()
			default:
				if i%2 == 1 {
					// the newest stored versions are tombstones that a compaction had to retain (a
					// reader from before the deletes is open while it runs)
					w.Flush()
					w.OpenSnapshot()
					var specs []drv.WriteSpec
					for _, j := range w.R.Perm(len(w.Keys))[:2+w.R.Intn(4)] {
						specs = append(specs, drv.WriteSpec{Key: w.Keys[j], Del: true})
					}
					_, _ = w.Commit(specs)
				} else {
					_ = w.RandomCommit(0.1, 0)
				}
				w.Flush()
				for j := 0; j < 4 && w.CompactForce(0, 1); j++ {
				}
				w.CloseSnapshots()
			}
			for cy := 0; cy < 2; cy++ {
				floor := maxStoredVersion(w.DB)
				if err := w.DB.Close(); err != nil {
					c.Violation("C11|close-error", err.Error(), nil)
					return
				}
				db, err := drv.Open(w.Opt, false)
				if err != nil {
					c.Violation("C11|reopen-error", err.Error(), w.Witness())
					db, _ = drv.Open(w.Opt, false)
					w.DB = db
					return
				}
				w.DB = db
				k := w.Keys[w.R.Intn(len(w.Keys))]
				checkNewCommitAboveFloor(c, "C11|clean-reopen", w.DB, k, fmt.Sprintf("n%d.%d", i, cy), w.Witness(), floor)
				// keep the model in step
				w.M.Put(string(k), modelVerTok(w.DB.VerifNextTxnTs()-1, fmt.Sprintf("n%d.%d", i, cy), 40))
			}
			if i%2 == 0 {
				if err := w.DB.DropAll(); err != nil {
					c.Violation("C11|dropall-error", err.Error(), nil)
					return
				}
				w.M.M = map[string][]modelVer{}
				k := w.Keys[0]
				checkNewCommitAbove(c, "C11|after-dropall", w.DB, k, fmt.Sprintf("d%d", i), nil)
				w.M.Put(string(k), modelVerTok(w.DB.VerifNextTxnTs()-1, fmt.Sprintf("d%d", i), 40))
				_ = w.DB.Close()
				db, err := drv.Open(w.Opt, false)
				if err != nil {
					c.Violation("C11|reopen-after-dropall-error", err.Error(), nil)
					db, _ = drv.Open(w.Opt, false)
					w.DB = db
					return
				}
				w.DB = db
				checkNewCommitAbove(c, "C11|reopen-after-dropall", w.DB, k, fmt.Sprintf("e%d", i), nil)
				w.M.Put(string(k), modelVerTok(w.DB.VerifNextTxnTs()-1, fmt.Sprintf("e%d", i), 40))
				c.Count("ts.dropall_cycles", 1)
			}
			c.Distinct(fmt.Sprintf("where=%s|dropall=%v|variant=%d", where, i%2 == 0, i%6))
		})
	}
	if c.Counter("ts.new_commits_checked") == 0 {
		c.Inconclusive("nothing checked")
	}
	c.Sample(map[string]any{"step": "M = max version over InternalAccess+AllVersions scan; Update(Set k); Get(k).Version() must be > M and return the new value"})
	c.Assume("normal mode only (in managed mode the caller chooses timestamps)")
}
