package props

import (
	"errors"
	"fmt"
	"os"
	"path/filepath"
	"strconv"
	"sync"
	"sync/atomic"
	"time"

	badger "github.com/dgraph-io/badger/v4"

	"verif/h/core"
	"verif/h/hist"
	"verif/h/sched"
)

// bank runs transfer transactions over a few accounts while auditors check that every snapshot
// (Get of all accounts, or one iteration) sums to the initial total.
func bank(c *core.Ctx, work string, idx int, managed bool) {
	r := c.Rand(fmt.Sprintf("bank-%d", idx))
	dir := filepath.Join(work, fmt.Sprintf("bank%d", idx))
	_ = os.MkdirAll(dir, 0o755)
	ov := hist.SmallOptions(dir, []int{0, 1, 6, 8}[idx%4], r)
	db, err := openDB(ov.Opt, managed)
	if err != nil {
		c.Inconclusive("bank open: " + err.Error())
		return
	}
	defer func() { _ = db.Close(); _ = os.RemoveAll(dir) }()
	cfg := commitDelays
	cfg.Seed = r.Int63()
	s := sched.Install(cfg)
	defer sched.Uninstall()
	const nAcc, initial = 6, 1000
	acc := func(i int) []byte { return []byte(fmt.Sprintf("acc%02d", i)) }
	var mts atomic.Uint64
	var commitMu sync.Mutex
	mts.Store(1)
	begin := func(update bool) *badger.Txn {
		if managed {
			return db.NewTransactionAt(mts.Load(), update)
		}
		return db.NewTransaction(update)
	}
	commit := func(txn *badger.Txn) error {
		if !managed {
			return txn.Commit()
		}
		commitMu.Lock()
		defer commitMu.Unlock()
		ts := mts.Load() + 1
		err := txn.CommitAt(ts, nil)
		if err == nil {
			mts.Store(ts)
		}
		return err
	}
	{
		txn := begin(true)
		for i := 0; i < nAcc; i++ {
			_ = txn.Set(acc(i), []byte(strconv.Itoa(initial)))
		}
		if err := commit(txn); err != nil {
			c.Inconclusive("bank init: " + err.Error())
			return
		}
	}
	readBal := func(txn *badger.Txn, k []byte) (int, error) {
		it, err := txn.Get(k)
		if err != nil {
			return 0, err
		}
		v, err := it.ValueCopy(nil)
		if err != nil {
			return 0, err
		}
		return strconv.Atoi(string(v))
	}
	var wg sync.WaitGroup
	var transfers, conflicts, audits atomic.Int64
	stop := make(chan struct{})
	nT := c.Pick(250, 800)
	for w := 0; w < 8; w++ {
		wg.Add(1)
		go func(w int) {
			defer wg.Done()
			rr := c.Rand(fmt.Sprintf("bank-%d-w%d", idx, w))
			for n := 0; n < nT; n++ {
				a, b := rr.Intn(nAcc), rr.Intn(nAcc)
				if a == b {
					continue
				}
				txn := begin(true)
				ba, e1 := readBal(txn, acc(a))
				bb, e2 := readBal(txn, acc(b))
				if e1 != nil || e2 != nil {
					txn.Discard()
					c.Violation("C02|bank|read-error", fmt.Sprintf("account read failed: %v %v", e1, e2), nil)
					return
				}
				amt := 1 + rr.Intn(5)
				if ba < amt {
					txn.Discard()
					continue
				}
				_ = txn.Set(acc(a), []byte(strconv.Itoa(ba-amt)))
				_ = txn.Set(acc(b), []byte(strconv.Itoa(bb+amt)))
				err := commit(txn)
				switch {
				case err == nil:
					transfers.Add(1)
				case errors.Is(err, badger.ErrConflict):
					conflicts.Add(1)
				default:
					c.Violation("C02|bank|commit-error", err.Error(), nil)
				}
			}
		}(w)
	}
	var awg sync.WaitGroup
	for a := 0; a < 3; a++ {
		awg.Add(1)
		go func(a int) {
			defer awg.Done()
			for {
				select {
				case <-stop:
					return
				default:
				}
				txn := begin(false)
				sum := 0
				var seen []string
				if a%2 == 0 {
					for i := 0; i < nAcc; i++ {
						b, err := readBal(txn, acc(i))
						if err != nil {
							c.Violation("C02|bank|audit-read-error", err.Error(), nil)
						}
						sum += b
						seen = append(seen, fmt.Sprintf("%d", b))
					}
				} else {
					io := badger.DefaultIteratorOptions
					io.Prefix = []byte("acc")
					it := txn.NewIterator(io)
					for it.Rewind(); it.Valid(); it.Next() {
						v, _ := it.Item().ValueCopy(nil)
						b, _ := strconv.Atoi(string(v))
						sum += b
						seen = append(seen, fmt.Sprintf("%s=%d@%d", it.Item().Key(), b, it.Item().Version()))
					}
					it.Close()
				}
				rts := txn.ReadTs()
				txn.Discard()
				audits.Add(1)
				if sum != nAcc*initial {
					c.Violation("C02|bank|sum", fmt.Sprintf("snapshot at readTs %d sums to %d, want %d (managed=%v)", rts, sum, nAcc*initial, managed),
						map[string]any{"balances": seen, "options": ov.Name})
					return
				}
				time.Sleep(200 * time.Microsecond)
			}
		}(a)
	}
	wg.Wait()
	close(stop)
	awg.Wait()
	c.Eval(1)
	c.Count("bank.transfers", transfers.Load())
	c.Count("bank.conflicts", conflicts.Load())
	c.Count("bank.audits", audits.Load())
	addSchedCoverage(c, s)
	if transfers.Load() > 0 && conflicts.Load() > 0 {
		c.Distinct(fmt.Sprintf("bank|%s|managed=%v", ov.Name, managed))
	}
}

// C02 serializable snapshot isolation.
func C02(c *core.Ctx) {
	c.Rule("recorded histories of read-write transactions on 5-10 keys (read-modify-write, write-skew and blind-write shapes, long-running transactions " +
		"held across hundreds of commits, normal and managed mode) with delays at commit points; plus single-goroutine managed-mode scripts with several open transactions and NON-monotonic CommitAt timestamps judged by the exact must-reject/must-accept rule; oracle (a): no committed T has a committed W with " +
		"keys(W) intersecting reads(T) and readTs(T) < ts(W) < ts(T); oracle (b): every ErrConflict is justified by such a W; rejected commits leave no marker; " +
		"plus a bank workload whose auditors assert the balance sum on every snapshot; distinct = (mode, options, outcome class) combinations that contained both commits and conflicts")
	work := c.WorkDir()
	defer os.RemoveAll(work)
	for i := 0; i < c.Pick(12, 120); i++ {
		c02ManagedScripts(c, work, i)
	}
	idx := 0
	for round := 0; round < c.Pick(1, 5); round++ {
		for _, managed := range []bool{false, true} {
			for _, v := range []int{0, 1, 6} {
				idx++
				hr := HistRun{Variant: v, Managed: managed, Sched: commitDelays, NKeys: 5 + idx%6, MaxKey: 4,
					Mix: func(keys [][]byte) hist.Mix {
						m := hist.DefaultMix(keys)
						m.Clients = 10
						m.TxnsPerClient = c.Pick(120, 300)
						m.ROFrac = 0.1
						m.IterFrac = 0.2
						m.DeleteFrac = 0.1
						m.MetaFrac = 0
						m.BlindFrac = 0.2
						m.WriteSkew = idx%2 == 0
						m.HeldFrac = 0
						m.LongRWFrac = 0.04
						m.LongRWCommits = 400
						m.ValSizes = []int{24, 30, 100}
						return m
					}}
				res, err := runHistory(c, work, idx, hr)
				if err != nil {
					c.Inconclusive(err.Error())
					continue
				}
				c.Eval(1)
				tag := fmt.Sprintf("C02|managed=%v", managed)
				reportProbs(c, tag, res.Probs, res.Name)
				st := hist.CheckReads(c, tag, res.H, res.M)
				addReadStats(c, st)
				mr, cf := hist.CheckSSI(c, tag, res.H)
				c.Count("ssi.pairs_checked", mr)
				c.Count("ssi.conflicts_seen", cf)
				committed, long := 0, 0
				for _, t := range res.H.Txns {
					if t.Cold {
						c.Count("ssi.long_running_private_key_txns", 1)
						if t.CommitTs == 0 {
							c.Count("ssi.long_running_private_key_txns_rejected", 1)
							c.Count("ssi.cold_rejected:"+t.CommitErr, 1)
						}
					}
					if t.CommitTs != 0 {
						committed++
						if t.CommitTs-t.ReadTs > 200 {
							long++
						}
					}
				}
				c.Count("ssi.committed", int64(committed))
				c.Count("ssi.committed_long_running(readTs->commitTs span>200)", int64(long))
				addSchedCoverage(c, res.S)
				if committed > 0 && cf > 0 {
					c.Distinct(fmt.Sprintf("hist|%s|managed=%v|skew=%v|keys=%d", res.Name, managed, idx%2 == 0, hr.NKeys))
				}
				if idx <= 2 {
					c.Sample(histSample(res))
				}
				_ = res.DB.Close()
				_ = os.RemoveAll(res.Dir)
			}
		}
	}
	for i := 0; i < c.Pick(4, 16); i++ {
		bank(c, work, i, i%2 == 1)
	}
	if c.Counter("ssi.conflicts_seen") == 0 || c.Counter("ssi.pairs_checked") == 0 {
		c.Inconclusive("no conflicts or no overlapping committed pairs were observed")
	}
	c.CheckRaces(nil, "", "")
	c.Assume("64-bit fingerprint collisions ignored; workload has no drops, closes or oversized transactions (a commit refused after timestamp allocation leaves its fingerprints behind); " +
		"in managed mode the harness allocates increasing commit timestamps under a lock and reads at the newest acknowledged one (the API contract)")
}
