package props

import (
	"bytes"
	"errors"
	"fmt"
	"os"
	"path/filepath"
	"sync/atomic"
	"time"

	badger "github.com/dgraph-io/badger/v4"

	"verif/h/core"
	"verif/h/drv"
	"verif/h/gen"
	"verif/h/hist"
	"verif/h/model"
)

// C33 expired entries are invisible on every read path, live ones visible.
func C33(c *core.Ctx) {
	c.Rule("driver histories in which ~45% of the writes carry an expiry at least 10^6 s in the past or in the future (so no verdict depends on the clock), mixed with deletes, " +
		"overwrites by non-expiring values and several versions per key, spread over memtable/L0/deeper levels by flushes and compactions (incl. L0->L0, forced, Lmax), normal and " +
		"managed; after every flush/compaction Get and both iteration directions are compared with the model (an expired newest version hides older ones; a newer live write is " +
		"visible); at the end and at mid-run points the same state is read through Stream (delivered keys must be exactly the live ones) and Backup+Load (restored visible state); a GC " +
		"family adds RunValueLogGC over expired value-log entries on write-once keys; one guarded wall-clock case (TTL 2 s) is judged only from reads taken >= 1 s away from the " +
		"boundary; distinct = (options, mode, read path, placement) classes")
	work := c.WorkDir()
	defer os.RemoveAll(work)
	r := c.Rand("c33")
	var clock atomic.Int64
	driverExpFrac = 0.45
	defer func() { driverExpFrac = 0.2 }()
	n := c.Pick(18, 150)
	for i := 0; i < n; i++ {
		managed := i%4 == 3
		nStream := 0
		driverRunX(c, "C33", work, i, managed, r, c.Pick(240, 400), false, nil, func(w *drv.World, step string) {
			if step != "end" && w.R.Intn(12) != 0 {
				return
			}
			if managed {
				return // Stream/Backup below use the normal-mode API
			}
			// Stream path
			sr := runStream(w.DB, &clock, 1+w.R.Intn(4), nil, 0, false)
			if w.Opt.NumVersionsToKeep == 1 {
				checkStream(c, "C33|stream", &hist.History{}, w.M, sr, map[string]any{"step": step})
				nStream++
				c.Count("expiry.stream_runs", 1)
			}
			// Backup + Load path
			var buf bytes.Buffer
			if _, err := w.DB.Backup(&buf, 0); err != nil {
				c.Violation("C33|backup-error", err.Error(), nil)
				return
			}
			tdir := filepath.Join(work, fmt.Sprintf("restore-%d-%d", i, len(w.Steps)))
			tdb, ok := loadInto(c, "C33|backup", w.Opt, tdir, [][]byte{buf.Bytes()})
			if ok {
				st := hist.CheckState(c, "C33|backup-load", tdb, w.M, hist.StateOpts{})
				c.Count("expiry.backup_reads_checked", st.Gets+st.IterItems)
				_ = tdb.Close()
			}
			_ = os.RemoveAll(tdir)
		})
		c.Distinct(fmt.Sprintf("driver|variant=%d|managed=%v|stream=%v", i%6, managed, nStream > 0))
	}
	// GC family: expired value-log entries on write-once keys
	for i := 0; i < c.Pick(6, 40); i++ {
		dir := filepath.Join(work, fmt.Sprintf("gc%d", i))
		_ = os.MkdirAll(dir, 0o755)
		w := gcWorld(c, "C33|gc", dir, r, nil, false)
		if w == nil {
			continue
		}
		c.Eval(1)
		for j := 0; j < 12; j++ {
			exp := hist.FarPast()
			if j%3 == 0 {
				exp = hist.FarFuture()
			}
			_, _ = w.Commit([]drv.WriteSpec{{Key: []byte(fmt.Sprintf("once%02d", j)), Len: 1500, Meta: 3, Expires: exp}})
		}
		w.Flush()
		w.CheckInvariance("flush")
		for j := 0; j < 3; j++ {
			w.GC(0.001)
			w.CheckInvariance("gc")
			w.CompactForce(0, 1)
			w.CheckInvariance("compact")
		}
		c.Count("expiry.gc_rewrites", int64(w.GCOK))
		_ = w.DB.Close()
		_ = os.RemoveAll(dir)
		c.Distinct(fmt.Sprintf("gc|rewrites=%v", w.GCOK > 0))
	}
	// guarded wall-clock case
	c33Clock(c, work)
	if c.Counter("expiry.stream_runs") == 0 {
		c.Inconclusive("no stream run was checked")
	}
	c.Sample(map[string]any{"write": "SetEntry(k, v).ExpiresAt = now-2e6 (expired) or now+2e8 (live)", "paths": "Get, iterators fwd/rev, Stream, Backup+Load"})
	c.Assume("expiry stamps far from the clock except in the guarded TTL case; GC family uses write-once keys because of the listed GC resurrection finding")
}

func c33Clock(c *core.Ctx, work string) {
	dir := filepath.Join(work, "clock")
	_ = os.MkdirAll(dir, 0o755)
	defer os.RemoveAll(dir)
	opt, _ := drvOptions(dir, 0)
	db, err := badger.Open(opt)
	if err != nil {
		return
	}
	defer db.Close()
	mono := time.Now()
	_ = db.Update(func(txn *badger.Txn) error {
		_ = txn.Set([]byte("ttl"), []byte("old-live"))
		return nil
	})
	e := badger.NewEntry([]byte("ttl"), gen.Expand("ttlv", 100)).WithTTL(2 * time.Second)
	boundary := time.Unix(int64(e.ExpiresAt), 0)
	if err := db.Update(func(txn *badger.Txn) error { return txn.SetEntry(e) }); err != nil {
		return
	}
	_ = mono
	read := func() (found bool, when time.Time) {
		t0 := time.Now()
		err := db.View(func(txn *badger.Txn) error {
			_, err := txn.Get([]byte("ttl"))
			return err
		})
		t1 := time.Now()
		if t1.Sub(t0) > 300*time.Millisecond {
			return false, time.Time{} // too slow to attribute: sample dropped
		}
		return !errors.Is(err, badger.ErrKeyNotFound), t0
	}
	judged := 0
	for i := 0; i < 40; i++ {
		found, when := read()
		if when.IsZero() {
			continue
		}
		// ExpiresAt has one-second resolution and badger compares with time.Now().Unix()
		switch {
		case when.Before(boundary.Add(-time.Second)):
			judged++
			if !found {
				c.Violation("C33|clock|live-entry-invisible", "an entry with TTL 2s was invisible more than 1s before its expiry", nil)
			}
		case when.After(boundary.Add(time.Second)):
			judged++
			if found {
				c.Violation("C33|clock|expired-entry-visible", "an entry was still visible more than 1s after its expiry (and must hide the older version)", nil)
			}
		}
		time.Sleep(100 * time.Millisecond)
	}
	c.Eval(1)
	c.Count("expiry.clock_reads_judged", int64(judged))
	c.Distinct("clock-guarded")
	_ = model.New
}
