package props

import (
	"fmt"
	"math/rand"
	"os"
	"path/filepath"
	"sort"
	"time"

	badger "github.com/dgraph-io/badger/v4"
	"github.com/dgraph-io/badger/v4/pb"
	"github.com/dgraph-io/ristretto/v2/z"

	"verif/h/core"
	"verif/h/gen"
	"verif/h/hist"
	"verif/h/model"
)

type swEntry struct {
	key string
	ver model.Ver
}

// genStreamData returns entries sorted by key asc, version desc.
func genStreamData(r *rand.Rand, nKeys int, minTs, maxTs uint64, tag string, sizes []int) []swEntry {
	keys := gen.KeySet(r, nKeys, 9)
	var out []swEntry
	n := 0
	for _, k := range keys {
		nv := 1 + r.Intn(3)
		vs := map[uint64]bool{}
		for len(vs) < nv {
			vs[minTs+uint64(r.Int63n(int64(maxTs-minTs+1)))] = true
		}
		var tss []uint64
		for t := range vs {
			tss = append(tss, t)
		}
		sort.Slice(tss, func(i, j int) bool { return tss[i] > tss[j] })
		for _, ts := range tss {
			n++
			v := model.Ver{Ts: ts, Token: fmt.Sprintf("%s%d", tag, n), Len: sizes[r.Intn(len(sizes))]}
			switch r.Intn(8) {
			case 0:
				v = model.Ver{Ts: ts, Del: true}
			case 1:
				v.UserMeta = byte(1 + r.Intn(200))
				v.ExpiresAt = hist.FarFuture()
			case 2:
				v.UserMeta = byte(1 + r.Intn(200))
				v.ExpiresAt = hist.FarPast()
			case 3:
				v.UserMeta = byte(1 + r.Intn(200))
			}
			out = append(out, swEntry{string(k), v})
		}
	}
	return out
}

// streamIn writes the entries through a StreamWriter using nStreams contiguous key ranges,
// random batch sizes and interleaved stream ids.
func streamIn(sw *badger.StreamWriter, r *rand.Rand, ents []swEntry, nStreams int, doneMarkers bool) error {
	if nStreams > len(ents) {
		nStreams = 1
	}
	// cut points at key boundaries
	bounds := []int{0}
	for s := 1; s < nStreams; s++ {
		cut := s * len(ents) / nStreams
		for cut < len(ents) && cut > 0 && ents[cut].key == ents[cut-1].key {
			cut++
		}
		if cut > bounds[len(bounds)-1] && cut < len(ents) {
			bounds = append(bounds, cut)
		}
	}
	bounds = append(bounds, len(ents))
	pos := make([]int, len(bounds)-1)
	for i := range pos {
		pos[i] = bounds[i]
	}
	remaining := len(ents)
	for remaining > 0 {
		buf := z.NewBuffer(1<<16, "verif")
		nb := 1 + r.Intn(40)
		for j := 0; j < nb && remaining > 0; j++ {
			s := r.Intn(len(pos))
			for pos[s] >= bounds[s+1] {
				s = (s + 1) % len(pos)
			}
			e := ents[pos[s]]
			pos[s]++
			remaining--
			kv := &pb.KV{Key: []byte(e.key), Version: e.ver.Ts, StreamId: uint32(s + 1), ExpiresAt: e.ver.ExpiresAt}
			if e.ver.Del {
				kv.Meta = []byte{badger.VerifBitDelete}
			} else {
				kv.Value = e.ver.Value()
			}
			if e.ver.UserMeta != 0 {
				kv.UserMeta = []byte{e.ver.UserMeta}
			}
			badger.KVToBuffer(kv, buf)
			if doneMarkers && pos[s] == bounds[s+1] {
				badger.KVToBuffer(&pb.KV{StreamId: uint32(s + 1), StreamDone: true}, buf)
			}
		}
		err := sw.Write(buf)
		_ = buf.Release()
		if err != nil {
			return err
		}
	}
	return nil
}

// streamInConcurrent: StreamWriter.Write is documented as safe for concurrent use. One goroutine per
// stream sends its whole contiguous range as a single batch; the first range holds ~90% of the
// entries, so the small batches run to completion while the large one is still being decoded.
func streamInConcurrent(sw *badger.StreamWriter, ents []swEntry, nStreams int) error {
	if nStreams < 2 {
		nStreams = 2
	}
	cut := len(ents) * 9 / 10
	bounds := []int{0}
	for s := 0; s < nStreams-1; s++ {
		b := cut + s*(len(ents)-cut)/(nStreams-1)
		for b < len(ents) && b > 0 && ents[b].key == ents[b-1].key {
			b++
		}
		if b > bounds[len(bounds)-1] && b < len(ents) {
			bounds = append(bounds, b)
		}
	}
	bounds = append(bounds, len(ents))
	errs := make(chan error, len(bounds))
	start := make(chan struct{})
	for s := 0; s+1 < len(bounds); s++ {
		go func(s int) {
			buf := z.NewBuffer(1<<16, "verif")
			defer func() { _ = buf.Release() }()
			for _, e := range ents[bounds[s]:bounds[s+1]] {
				kv := &pb.KV{Key: []byte(e.key), Version: e.ver.Ts, StreamId: uint32(s + 1), ExpiresAt: e.ver.ExpiresAt}
				if e.ver.Del {
					kv.Meta = []byte{badger.VerifBitDelete}
				} else {
					kv.Value = e.ver.Value()
				}
				if e.ver.UserMeta != 0 {
					kv.UserMeta = []byte{e.ver.UserMeta}
				}
				badger.KVToBuffer(kv, buf)
			}
			<-start
			if s > 0 {
				time.Sleep(time.Duration(s) * 300 * time.Microsecond) // the large batch is under way
			}
			errs <- sw.Write(buf)
		}(s)
	}
	close(start)
	var first error
	for s := 0; s+1 < len(bounds); s++ {
		if err := <-errs; err != nil && first == nil {
			first = err
		}
	}
	return first
}

// streamInDynamic sends the entries as one stream in two Write calls (first fifth, then the rest) and
// waits in between until the percentile value threshold has moved.
func streamInDynamic(db *badger.DB, sw *badger.StreamWriter, ents []swEntry) error {
	cut := len(ents) / 5
	for cut < len(ents) && cut > 0 && ents[cut].key == ents[cut-1].key {
		cut++
	}
	t0 := db.VerifValueThreshold()
	for part, rng := range [][2]int{{0, cut}, {cut, len(ents)}} {
		buf := z.NewBuffer(1<<16, "verif")
		for _, e := range ents[rng[0]:rng[1]] {
			kv := &pb.KV{Key: []byte(e.key), Version: e.ver.Ts, StreamId: 1, ExpiresAt: e.ver.ExpiresAt}
			if e.ver.Del {
				kv.Meta = []byte{badger.VerifBitDelete}
			} else {
				kv.Value = e.ver.Value()
			}
			if e.ver.UserMeta != 0 {
				kv.UserMeta = []byte{e.ver.UserMeta}
			}
			badger.KVToBuffer(kv, buf)
		}
		err := sw.Write(buf)
		_ = buf.Release()
		if err != nil {
			return err
		}
		if part == 0 {
			deadline := time.Now().Add(2 * time.Second)
			for db.VerifValueThreshold() == t0 && time.Now().Before(deadline) {
				time.Sleep(time.Millisecond)
			}
		}
	}
	return nil
}

// C26 StreamWriter builds exactly the streamed database.
func C26(c *core.Ctx) {
	c.Rule("generated sorted entry sets (hostile keys, 1-3 versions per key newest first, deletes, past/future expiry, user meta, value sizes around the threshold) are cut into " +
		"1-8 contiguous streams and written with random batching, interleaved stream ids and optional done markers (every fourth run: 3000-6000 keys, one goroutine per stream calling Write concurrently, one large and several small batches; every sixteenth run: VLogPercentile with a size mix that moves the value threshold while a batch is in flight) through Prepare (fresh or previously filled database) or " +
		"PrepareIncremental (1-3 incremental runs with increasing versions on top of existing data), in normal and managed mode, plain/compressed/encrypted; after Flush and " +
		"again after re-open the full state incl. AllVersions must equal the streamed entries (+ pre-existing data for incremental runs), the structure validator (C14) must pass, " +
		"and in normal mode a new commit must get a version above every streamed version (C11 oracle); distinct = (mode, prepare kind, options, streams, done markers) classes")
	work := c.WorkDir()
	defer os.RemoveAll(work)
	r := c.Rand("c26")
	n := c.Pick(160, 1200)
	for i := 0; i < n; i++ {
		c26Run(c, "C26", work, i, r)
	}
	c.Assume("streams are sorted and non-overlapping (the API's precondition); compaction disabled so that every streamed version stays readable")
}

// c26Run is one StreamWriter case; prop is the property it reports under (C11 re-uses the
// non-managed concurrent-Write cases for its "after StreamWriter.Flush" clause).
func c26Run(c *core.Ctx, prop, work string, i int, r *rand.Rand) {
	managed := i%2 == 0
	incremental := i%3 == 1
	concurrent := i%8 == 5 || i%8 == 2 // Write called from one goroutine per stream
	dynamic := i%16 == 7               // VLogPercentile: the value threshold moves while batches are in flight
	if dynamic {
		concurrent = false
	}
	dir := filepath.Join(work, fmt.Sprintf("sw%d", i))
	_ = os.MkdirAll(dir, 0o755)
	opt, name := drvOptions(dir, i)
	opt.NumVersionsToKeep = 1 << 30
	// compaction is disabled here; incremental rounds may place many tables on L0, which must not
	// stall the final memtable flush forever
	opt.NumLevelZeroTablesStall = 1 << 20
	if dynamic {
		opt.ValueThreshold = 32
		opt.VLogPercentile = 0.5
	}
	sizes := []int{0, 10, int(opt.ValueThreshold) - 1, int(opt.ValueThreshold), int(opt.ValueThreshold) + 1, 700}
	db, err := openDB(opt, managed)
	if err != nil {
		c.Inconclusive("open: " + err.Error())
		return
	}
	c.Eval(1)
	m := model.New()
	info := map[string]any{"options": name, "managed": managed, "incremental": incremental, "concurrent_writes": concurrent}
	fail := func(sig, what string) {
		c.Violation(prop+"|"+sig, what, info)
	}
	ok := true
	nStreams := 1 + r.Intn(8)
	done := r.Intn(2) == 0
	info["streams"], info["done_markers"] = nStreams, done
	var maxStreamed uint64
	rounds := 1
	if incremental {
		rounds = 1 + r.Intn(3)
	} else if r.Intn(2) == 0 {
		// previously filled database: Prepare must drop it
		for j := 0; j < 20; j++ {
			var err error
			if managed {
				txn := db.NewTransactionAt(5, true)
				_ = txn.Set([]byte(fmt.Sprintf("old%02d", j)), []byte("old"))
				err = txn.CommitAt(5, nil)
			} else {
				err = db.Update(func(txn *badger.Txn) error { return txn.Set([]byte(fmt.Sprintf("old%02d", j)), []byte("old")) })
			}
			if err != nil {
				fail("prefill", err.Error())
			}
		}
		info["prefilled"] = true
	}
	for round := 0; round < rounds && ok; round++ {
		lo := uint64(10 + 100*round)
		nk := 5 + r.Intn(150)
		if concurrent {
			nk = 3000 + r.Intn(3000)
		}
		if dynamic {
			nk = 1500 + r.Intn(1500)
		}
		ents := genStreamData(r, nk, lo, lo+90, fmt.Sprintf("s%d.", round), sizes)
		if dynamic {
			// sizes by key rank: a first batch of 500-byte values raises the percentile threshold,
			// the second batch holds many 8-byte values (which pull it down again while the batch
			// is being processed) followed by 500-byte values
			n1, n2 := len(ents)/5, len(ents)*9/10
			for j := range ents {
				if ents[j].ver.Del {
					continue
				}
				switch {
				case j < n1:
					ents[j].ver.Len = 500
				case j < n2:
					ents[j].ver.Len = 8
				default:
					ents[j].ver.Len = 500
				}
			}
		}
		if concurrent {
			// the globally newest version sits in one of the small trailing ranges
			for j := len(ents) - 1 - r.Intn(len(ents)/20); j >= 0; j-- {
				if j == 0 || ents[j-1].key != ents[j].key {
					ents[j].ver.Ts = lo + 95
					break
				}
			}
		}
		sw := db.NewStreamWriter()
		if incremental {
			err = sw.PrepareIncremental()
		} else {
			err = sw.Prepare()
		}
		if err != nil {
			fail("prepare", err.Error())
			ok = false
			break
		}
		if dynamic {
			err = streamInDynamic(db, sw, ents)
		} else if concurrent {
			err = streamInConcurrent(sw, ents, nStreams)
		} else {
			err = streamIn(sw, r, ents, nStreams, done)
		}
		if err != nil {
			fail("write", err.Error())
			sw.Cancel()
			ok = false
			break
		}
		if err := sw.Flush(); err != nil {
			fail("flush", err.Error())
			ok = false
			break
		}
		for _, e := range ents {
			m.Put(e.key, e.ver)
			if e.ver.Ts > maxStreamed {
				maxStreamed = e.ver.Ts
			}
		}
		c.Count("sw.entries_streamed", int64(len(ents)))
		c.Count("sw.rounds", 1)
	}
	check := func(when string) {
		st := hist.CheckState(c, prop+"|"+when, db, m, hist.StateOpts{Managed: managed, AllVersions: true, ExtraKeys: []string{"old00", "old19"}})
		c.Count("sw.reads_checked", st.Gets+st.IterItems)
		checkStructure(c, prop+"|"+when, db, opt, true, func() map[string]any { return info })
	}
	if ok {
		check("after-flush")
		if !managed && concurrent {
			checkNewCommitAbove(c, prop+"|after-flush", db, []byte("b~new0"), fmt.Sprintf("M%d", i), info)
			m.Put("b~new0", model.Ver{Ts: maxStoredVersion(db), Token: fmt.Sprintf("M%d", i), Len: 40})
		}
		if err := db.Close(); err != nil {
			fail("close", err.Error())
		}
		db, err = openDB(opt, managed)
		if err != nil {
			fail("reopen", err.Error())
			_ = os.RemoveAll(dir)
			return
		}
		check("after-reopen")
		if !managed {
			m2 := maxStoredVersion(db)
			if m2 < maxStreamed {
				fail("max-version", fmt.Sprintf("stored max version %d below streamed max %d", m2, maxStreamed))
			}
			checkNewCommitAbove(c, prop+"|after-streamwriter", db, []byte("b~new"), fmt.Sprintf("N%d", i), info)
		}
	}
	_ = db.Close()
	_ = os.RemoveAll(dir)
	c.Distinct(fmt.Sprintf("%s|managed=%v|incr=%v|streams=%d|done=%v|concurrent=%v|dynamic-threshold=%v", name, managed, incremental, min(nStreams, 4), done, concurrent, dynamic))
	if concurrent {
		c.Count("sw.concurrent_write_runs", 1)
	}
	if i < 3 {
		c.Sample(info)
	}

}
