package props

import (
	"bufio"
	"fmt"
	"io"
	"os"
	"os/exec"
	"path/filepath"
	"strings"
	"sync"

	badger "github.com/dgraph-io/badger/v4"

	"verif/h/core"
)

func lockOptions(dir, vdir string, ro bool) badger.Options {
	o := badger.DefaultOptions(dir).WithLogger(nil)
	o.ValueDir = vdir
	o.MemTableSize = 1 << 20
	o.ValueThreshold = 1024
	o.ValueLogFileSize = 1 << 20
	o.NumCompactors = 0
	o.MetricsEnabled = false
	o.BlockCacheSize = 1 << 20
	o.ReadOnly = ro
	return o
}

// ChildLock is the lock-holder child: it executes open/close commands from stdin.
func ChildLock() int {
	in := bufio.NewScanner(os.Stdin)
	var db *badger.DB
	for in.Scan() {
		f := strings.Fields(in.Text())
		if len(f) == 0 {
			continue
		}
		switch f[0] {
		case "open-rw", "open-ro":
			if db != nil {
				fmt.Println("err already-open")
				continue
			}
			d, err := badger.Open(lockOptions(f[1], f[2], f[0] == "open-ro"))
			if err != nil {
				fmt.Println("err " + strings.ReplaceAll(err.Error(), "\n", " "))
				continue
			}
			db = d
			fmt.Println("ok")
		case "close":
			if db == nil {
				fmt.Println("err not-open")
				continue
			}
			err := db.Close()
			db = nil
			if err != nil {
				fmt.Println("err " + err.Error())
			} else {
				fmt.Println("ok")
			}
		case "spawn":
			// a bystander process started while the database may be open: it must not inherit the lock
			by := exec.Command("sleep", "300")
			if err := by.Start(); err != nil {
				fmt.Println("err " + err.Error())
				continue
			}
			defer func() { _ = by.Process.Kill(); _, _ = by.Process.Wait() }()
			fmt.Println("ok")
		case "exit":
			if db != nil {
				_ = db.Close()
			}
			fmt.Println("ok")
			return 0
		}
	}
	return 0
}

// bystander processes started by the in-process actors (killed at the end of the check)
var bystanders []*exec.Cmd

type lockActor struct {
	name   string
	cmd    *exec.Cmd
	in     io.WriteCloser
	out    *bufio.Scanner
	local  *badger.DB // in-process actor
	inProc bool
	// what it holds
	mode      string // "", "rw", "ro"
	dir, vdir string
}

func (a *lockActor) do(cmdline string) (bool, string) {
	if a.inProc {
		f := strings.Fields(cmdline)
		switch f[0] {
		case "open-rw", "open-ro":
			d, err := badger.Open(lockOptions(f[1], f[2], f[0] == "open-ro"))
			if err != nil {
				return false, err.Error()
			}
			a.local = d
			return true, ""
		case "close":
			err := a.local.Close()
			a.local = nil
			if err != nil {
				return false, err.Error()
			}
			return true, ""
		case "spawn":
			by := exec.Command("sleep", "300")
			if err := by.Start(); err != nil {
				return false, err.Error()
			}
			bystanders = append(bystanders, by)
			return true, ""
		}
		return true, ""
	}
	fmt.Fprintln(a.in, cmdline)
	if !a.out.Scan() {
		return false, "child died"
	}
	line := a.out.Text()
	if line == "ok" {
		return true, ""
	}
	return false, strings.TrimPrefix(line, "err ")
}

// C35 directory locking excludes a second writer.
func C35(c *core.Ctx) {
	c.Rule("a coordinator drives 3 child processes and 2 in-process actors through PRNG-chosen sequences of open-read-write / open-read-only / close on two databases " +
		"(one with Dir==ValueDir, one with separate directories, and a third configuration sharing only the ValueDir), plus racing read-write opens released together; now and then a holder starts an unrelated long-lived process (sleep) while its database is open, which must not keep the lock alive after Close; oracle: an " +
		"flock model per directory - read-write succeeds iff nobody holds either directory, read-only succeeds iff no read-write holder, at most one racer wins, after Close the " +
		"next open succeeds; distinct = (actor kind, requested mode, holders present, outcome) classes")
	work := c.WorkDir()
	defer os.RemoveAll(work)
	r := c.Rand("c35")
	self, _ := os.Executable()
	var actors []*lockActor
	for i := 0; i < 3; i++ {
		cmd := exec.Command(self, "C35", "--child-lock")
		in, _ := cmd.StdinPipe()
		outp, _ := cmd.StdoutPipe()
		cmd.Stderr = io.Discard
		if err := cmd.Start(); err != nil {
			c.Inconclusive("cannot start child: " + err.Error())
			return
		}
		actors = append(actors, &lockActor{name: fmt.Sprintf("child%d", i), cmd: cmd, in: in, out: bufio.NewScanner(outp)})
	}
	for i := 0; i < 2; i++ {
		actors = append(actors, &lockActor{name: fmt.Sprintf("inproc%d", i), inProc: true})
	}
	defer func() {
		for _, a := range actors {
			if a.inProc {
				if a.local != nil {
					_ = a.local.Close()
				}
				continue
			}
			fmt.Fprintln(a.in, "exit")
			_ = a.in.Close()
			_ = a.cmd.Wait()
		}
	}()
	type dbc struct{ dir, vdir string }
	mk := func(p ...string) string {
		d := filepath.Join(append([]string{work}, p...)...)
		_ = os.MkdirAll(d, 0o755)
		return d
	}
	dbs := []dbc{{mk("a"), mk("a")}, {mk("b"), mk("bv")}, {mk("c"), mk("bv")}} // the third shares bv with the second
	// initialise so that read-only opens have a manifest
	for _, d := range dbs[:2] {
		db, err := badger.Open(lockOptions(d.dir, d.vdir, false))
		if err != nil {
			c.Inconclusive("init: " + err.Error())
			return
		}
		_ = db.Update(func(txn *badger.Txn) error { return txn.Set([]byte("k"), []byte("v")) })
		_ = db.Close()
	}
	{
		db, err := badger.Open(lockOptions(dbs[2].dir, dbs[2].vdir, false))
		if err == nil {
			_ = db.Close()
		}
	}
	// model: directory -> holders
	type holder struct {
		a    *lockActor
		mode string
	}
	held := map[string][]holder{}
	canOpen := func(d dbc, mode string) bool {
		for _, dir := range []string{d.dir, d.vdir} {
			for _, h := range held[dir] {
				if mode == "rw" || h.mode == "rw" {
					return false
				}
			}
		}
		return true
	}
	steps := c.Pick(1200, 3000)
	nSpawn := 0
	defer func() {
		for _, by := range bystanders {
			_ = by.Process.Kill()
			_, _ = by.Process.Wait()
		}
		bystanders = nil
	}()
	for s := 0; s < steps; s++ {
		a := actors[r.Intn(len(actors))]
		if a.mode != "" && nSpawn < 24 && r.Intn(12) == 0 {
			// the holder starts an unrelated long-lived process (an application forking a helper
			// while its database is open): the lock must go away with Close all the same
			if ok, _ := a.do("spawn"); ok {
				nSpawn++
				c.Count("lock.bystanders_started_while_holding", 1)
			}
		}
		if a.mode != "" && r.Intn(2) == 0 {
			ok, msg := a.do("close")
			c.Eval(1)
			if !ok {
				c.Violation("C35|close-error", msg, nil)
			}
			for _, dir := range []string{a.dir, a.vdir} {
				hs := held[dir][:0]
				for _, h := range held[dir] {
					if h.a != a {
						hs = append(hs, h)
					}
				}
				held[dir] = hs
			}
			a.mode = ""
			continue
		}
		if a.mode != "" {
			continue
		}
		d := dbs[r.Intn(len(dbs))]
		mode := []string{"rw", "ro"}[r.Intn(2)]
		want := canOpen(d, mode)
		ok, msg := a.do(fmt.Sprintf("open-%s %s %s", mode, d.dir, d.vdir))
		c.Eval(1)
		nh := len(held[d.dir]) + len(held[d.vdir])
		kind := "child"
		if a.inProc {
			kind = "inproc"
		}
		c.Distinct(fmt.Sprintf("%s|%s|holders=%d|sameDirs=%v|ok=%v", kind, mode, min(nh, 3), d.dir == d.vdir, ok))
		info := map[string]any{"actor": a.name, "mode": mode, "dir": filepath.Base(d.dir), "vdir": filepath.Base(d.vdir), "holders_dir": len(held[d.dir]), "holders_vdir": len(held[d.vdir]), "error": msg}
		switch {
		case ok && !want:
			c.Violation(fmt.Sprintf("C35|open-%s-succeeded-despite-holder", mode), fmt.Sprintf("%s opened %s while the lock model says another holder excludes it", a.name, mode), info)
		case !ok && want:
			c.Violation(fmt.Sprintf("C35|open-%s-refused-without-holder", mode), fmt.Sprintf("%s could not open %s although nobody holds the directories: %s", a.name, mode, msg), info)
		}
		if ok {
			a.mode, a.dir, a.vdir = mode, d.dir, d.vdir
			held[d.dir] = append(held[d.dir], holder{a, mode})
			if d.vdir != d.dir {
				held[d.vdir] = append(held[d.vdir], holder{a, mode})
			}
		}
		if s < 3 {
			c.Sample(info)
		}
	}
	// release everything, then racing read-write opens
	for _, a := range actors {
		if a.mode != "" {
			a.do("close")
			a.mode = ""
		}
	}
	for race := 0; race < c.Pick(90, 300); race++ {
		d := dbs[race%2]
		var wg sync.WaitGroup
		wins := make([]bool, 3)
		start := make(chan struct{})
		for i := 0; i < 3; i++ {
			wg.Add(1)
			go func(i int) {
				defer wg.Done()
				<-start
				ok, _ := actors[i].do(fmt.Sprintf("open-rw %s %s", d.dir, d.vdir))
				wins[i] = ok
			}(i)
		}
		close(start)
		wg.Wait()
		n := 0
		for i, w := range wins {
			if w {
				n++
				actors[i].do("close")
			}
		}
		c.Eval(1)
		c.Count("lock.races", 1)
		if n > 1 {
			c.Violation("C35|race|two-writers", fmt.Sprintf("%d processes opened the same directory read-write at the same time", n), nil)
		}
		if n == 0 {
			c.Count("lock.races_nobody_won", 1)
		}
		c.Distinct(fmt.Sprintf("race|winners=%d", n))
	}
}
