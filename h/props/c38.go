package props

import (
	"context"
	"errors"
	"fmt"
	"os"
	"path/filepath"
	"runtime"
	"strings"
	"sync"
	"sync/atomic"
	"time"

	badger "github.com/dgraph-io/badger/v4"
	"github.com/dgraph-io/badger/v4/pb"

	"verif/h/core"
	"verif/h/drv"
	"verif/h/gen"
	"verif/h/hist"
	"verif/h/model"
	"verif/h/sched"
)

// callTracker records in-flight public calls for the no-progress watchdog.
type callTracker struct {
	mu       sync.Mutex
	inflight map[int64]string
	started  map[int64]time.Time
	next     int64
	done     atomic.Int64
}

func (t *callTracker) begin(name string) int64 {
	t.mu.Lock()
	t.next++
	id := t.next
	t.inflight[id] = name
	t.started[id] = time.Now()
	t.mu.Unlock()
	return id
}

func (t *callTracker) end(id int64) {
	t.mu.Lock()
	delete(t.inflight, id)
	delete(t.started, id)
	t.mu.Unlock()
	t.done.Add(1)
}

func (t *callTracker) oldest() (string, time.Duration) {
	t.mu.Lock()
	defer t.mu.Unlock()
	var name string
	var age time.Duration
	for id, st := range t.started {
		if d := time.Since(st); d > age {
			age, name = d, t.inflight[id]
		}
	}
	return name, age
}

func badgerBlocked(dump string) []string {
	var out []string
	for _, g := range strings.Split(dump, "\n\n") {
		if !strings.Contains(g, "github.com/dgraph-io/badger/v4") {
			continue
		}
		lines := strings.Split(g, "\n")
		if len(lines) < 3 {
			continue
		}
		hdr := lines[0]
		if !(strings.Contains(hdr, "chan ") || strings.Contains(hdr, "semacquire") || strings.Contains(hdr, "sync.") || strings.Contains(hdr, "select") || strings.Contains(hdr, "sleep")) {
			continue
		}
		var fns []string
		for i := 1; i < len(lines) && len(fns) < 6; i += 2 {
			fns = append(fns, strings.TrimSpace(lines[i]))
		}
		out = append(out, hdr[:strings.Index(hdr, "[")]+strings.Join(fns, " <- "))
	}
	return out
}

// waitTimeout waits for wg up to d.
func waitTimeout(wg *sync.WaitGroup, d time.Duration) bool {
	ch := make(chan struct{})
	go func() { wg.Wait(); close(ch) }()
	select {
	case <-ch:
		return true
	case <-time.After(d):
		return false
	}
}

// analyse decides between deadlock and slowness by observing the process twice.
func analyse(tr *callTracker, what string) (string, bool) {
	dump := func() (string, int64) {
		buf := make([]byte, 16<<20)
		buf = buf[:runtime.Stack(buf, true)]
		return string(buf), tr.done.Load()
	}
	d1, p1 := dump()
	time.Sleep(8 * time.Second)
	d2, p2 := dump()
	b1, b2 := badgerBlocked(d1), badgerBlocked(d2)
	same := len(b1) == len(b2)
	if same {
		m := map[string]int{}
		for _, x := range b1 {
			m[x]++
		}
		for _, x := range b2 {
			m[x]--
		}
		for _, v := range m {
			same = same && v == 0
		}
	}
	name, age := tr.oldest()
	if same && p1 == p2 {
		return fmt.Sprintf("DEADLOCK (%s): %s has not returned for %s; no public call completed and the set of blocked badger goroutines did not change over 8s\n%s", what, name, age.Round(time.Second), d2), true
	}
	return fmt.Sprintf("SLOW (%s): %s has not returned for %s but the system is making progress", what, name, age.Round(time.Second)), false
}

// stress runs one concurrent API workload and reports whether every call returned.
func c38Round(c *core.Ctx, work string, idx int) {
	r := c.Rand(fmt.Sprintf("c38-%d", idx))
	dir := filepath.Join(work, fmt.Sprintf("d%d", idx))
	_ = os.MkdirAll(dir, 0o755)
	defer os.RemoveAll(dir)
	ov := hist.SmallOptions(dir, []int{0, 1, 6, 3, 7}[idx%5], r)
	ov.Opt.NumCompactors = 2 + idx%3
	ov.Opt.NumLevelZeroTables = 1
	ov.Opt.NumLevelZeroTablesStall = 2 + idx%2
	ov.Opt.NumMemtables = 2
	ov.Opt.MemTableSize = 16 << 10
	ov.Opt.ValueLogMaxEntries = 40
	if idx%2 == 1 {
		ov.Opt.ValueThreshold = 2048 // values stay in the memtable: it fills after ~10 commits and L0 is under constant pressure
		ov.Opt.VLogPercentile = 0
	}
	db, err := badger.Open(ov.Opt)
	if err != nil {
		c.Inconclusive("open: " + err.Error())
		return
	}
	scfg := sched.Config{Seed: r.Int63(), Prob: 0.03, MaxSleep: 2 * time.Millisecond,
		ProbBy: map[string]float64{"flush.beforeAdd": 0.5, "flush.beforePop": 0.5, "compact.afterManifest": 0.5, "compact.afterReplace": 0.5, "dropprefix.beforeLevels": 1, "dropall.afterPrepare": 1}}
	slowCompactions := idx%2 == 1
	if slowCompactions {
		// compactions take tens of milliseconds: L0 sits at its stall limit and the writers are
		// stalled most of the time, which is when the maintenance calls arrive
		scfg.MaxSleep = 25 * time.Millisecond
		for _, p := range []string{"compact.afterBuild", "compact.afterManifest", "compact.afterReplace", "compact.afterDelete"} {
			scfg.ProbBy[p] = 1
		}
	}
	s := sched.Install(scfg)
	defer sched.Uninstall()
	tr := &callTracker{inflight: map[int64]string{}, started: map[int64]time.Time{}}
	keys := gen.KeySet(r, 40, 8)
	stopAll := make(chan struct{})     // stops everything but the writers
	stopWriters := make(chan struct{}) // stops the writers (after Close)
	var wg, wwg sync.WaitGroup
	var panics atomic.Value
	call := func(name string, f func()) {
		id := tr.begin(name)
		defer tr.end(id)
		defer func() {
			if p := recover(); p != nil {
				buf := make([]byte, 4096)
				buf = buf[:runtime.Stack(buf, false)]
				panics.CompareAndSwap(nil, fmt.Sprintf("%s panicked: %v\n%s", name, p, buf))
			}
		}()
		f()
	}
	var closing, closed, paused atomic.Bool
	// DropAll's documentation excludes concurrent reads ("resilient to concurrent writes, but not to
	// reads ... otherwise they may result in panics"), so readers hold this lock shared and DropAll
	// takes it exclusively; writers, batches and every other maintenance call keep running.
	var dropAllMu sync.RWMutex
	// writers
	for g := 0; g < 6; g++ {
		wwg.Add(1)
		go func(g int) {
			defer wwg.Done()
			rr := c.Rand(fmt.Sprintf("c38-%d-w%d", idx, g))
			for n := 0; ; n++ {
				select {
				case <-stopWriters:
					return
				default:
				}
				if closed.Load() {
					return // the database must not be used after Close returned
				}
				if paused.Load() {
					time.Sleep(time.Millisecond)
					continue
				}
				call("Commit", func() {
					txn := db.NewTransaction(true)
					defer txn.Discard()
					for j := 0; j < 1+rr.Intn(3); j++ {
						_ = txn.Set(keys[rr.Intn(len(keys))], gen.Expand(fmt.Sprintf("s%d.%d.%d", g, n, j), []int{30, 200, 900}[rr.Intn(3)]))
					}
					if rr.Intn(4) == 0 {
						done := make(chan struct{})
						txn.CommitWith(func(error) { close(done) })
						<-done
					} else {
						_ = txn.Commit()
					}
				})
				if closing.Load() {
					time.Sleep(200 * time.Microsecond)
				}
			}
		}(g)
	}
	// readers / iterators
	for g := 0; g < 3; g++ {
		wg.Add(1)
		go func(g int) {
			defer wg.Done()
			rr := c.Rand(fmt.Sprintf("c38-%d-r%d", idx, g))
			for {
				select {
				case <-stopAll:
					return
				default:
				}
				call("View", func() {
					dropAllMu.RLock()
					defer dropAllMu.RUnlock()
					_ = db.View(func(txn *badger.Txn) error {
						if rr.Intn(2) == 0 {
							if it, err := txn.Get(keys[rr.Intn(len(keys))]); err == nil {
								_, _ = it.ValueCopy(nil)
							}
							return nil
						}
						io := badger.DefaultIteratorOptions
						io.Reverse = rr.Intn(2) == 0
						it := txn.NewIterator(io)
						defer it.Close()
						n := 0
						for it.Rewind(); it.Valid() && n < 30; it.Next() {
							_, _ = it.Item().ValueCopy(nil)
							n++
						}
						return nil
					})
				})
			}
		}(g)
	}
	// batch writer
	wg.Add(1)
	go func() {
		defer wg.Done()
		rr := c.Rand(fmt.Sprintf("c38-%d-b", idx))
		for {
			select {
			case <-stopAll:
				return
			default:
			}
			call("WriteBatch.Flush", func() {
				wb := db.NewWriteBatch()
				for j := 0; j < 20+rr.Intn(200); j++ {
					_ = wb.Set(keys[rr.Intn(len(keys))], gen.Expand("wb", 100))
				}
				_ = wb.Flush()
			})
			time.Sleep(time.Duration(rr.Intn(5)) * time.Millisecond)
		}
	}()
	// maintenance: GC, DropPrefix, DropAll, Flatten, Subscribe+cancel
	wg.Add(1)
	go func() {
		defer wg.Done()
		rr := c.Rand(fmt.Sprintf("c38-%d-m", idx))
		for {
			select {
			case <-stopAll:
				return
			case <-time.After(time.Duration(3+rr.Intn(12)) * time.Millisecond):
			}
			switch rr.Intn(6) {
			case 0, 1:
				call("RunValueLogGC", func() { _ = db.RunValueLogGC(0.01) })
			case 2:
				call("DropPrefix", func() { k := keys[rr.Intn(len(keys))]; _ = db.DropPrefix(k[:1]) })
			case 3:
				if rr.Intn(3) == 0 {
					call("DropAll", func() { dropAllMu.Lock(); defer dropAllMu.Unlock(); _ = db.DropAll() })
				}
			case 4:
				call("Flatten", func() { _ = db.Flatten(2) })
			case 5:
				call("Subscribe+cancel", func() {
					ctx, cancel := context.WithCancel(context.Background())
					done := make(chan struct{})
					go func() {
						_ = db.Subscribe(ctx, func(*badger.KVList) error { return nil }, []pb.Match{{Prefix: []byte{}}})
						close(done)
					}()
					time.Sleep(time.Duration(rr.Intn(4)) * time.Millisecond)
					cancel()
					<-done
				})
			}
		}
	}()
	limit := 40 * time.Second
	verdict := ""
	hung := false
	finish := func(what string) {
		// quiesce the clients that are not stuck (their short calls - e.g. commits refused with
		// ErrBlockedWrites - would otherwise count as progress), then observe the rest twice
		paused.Store(true)
		time.Sleep(2 * time.Second)
		v, dead := analyse(tr, what)
		verdict, hung = v, dead
	}
	dur := time.Duration(c.Pick(1500, 4000)) * time.Millisecond
	time.Sleep(dur)
	close(stopAll)
	paused.Store(true) // Flatten and the drops need the write pressure to end in order to finish
	var cerr error
	var subWG0 *sync.WaitGroup
	ok := waitTimeout(&wg, limit)
	paused.Store(false)
	time.Sleep(20 * time.Millisecond) // writes are in flight again when Close is called
	if !ok {
		finish("readers/maintenance did not finish")
	} else {
		// subscribers that are still registered when Close starts; their contexts are cancelled (or
		// their callbacks fail) while Close is shutting the publisher down
		var subWG sync.WaitGroup
		subWG0 = &subWG
		var cancels []context.CancelFunc
		nSubs := 2 + r.Intn(5)
		for i := 0; i < nSubs; i++ {
			ctx, cancel := context.WithCancel(context.Background())
			cancels = append(cancels, cancel)
			failing := r.Intn(4) == 0
			subWG.Add(1)
			go func() {
				defer subWG.Done()
				sid := tr.begin("Subscribe")
				defer tr.end(sid)
				defer func() { _ = recover() }()
				_ = db.Subscribe(ctx, func(*badger.KVList) error {
					if failing && closing.Load() {
						return errors.New("callback gives up")
					}
					time.Sleep(50 * time.Microsecond)
					return nil
				}, []pb.Match{{Prefix: []byte{}}})
			}()
		}
		for w := 0; w < 200 && db.VerifSubscriberCount() < nSubs; w++ {
			time.Sleep(time.Millisecond)
		}
		// Close with writes still in flight
		closing.Store(true)
		closeDone := make(chan error, 1)
		id := tr.begin("Close")
		go func() { closeDone <- db.Close() }()
		go func() {
			for _, cancel := range cancels {
				time.Sleep(time.Duration(r.Intn(400)) * time.Microsecond)
				cancel()
			}
		}()
		select {
		case cerr = <-closeDone:
			closed.Store(true)
			tr.end(id)
		case <-time.After(limit):
			finish("Close did not return")
		}
	}
	close(stopWriters)
	if verdict == "" && !waitTimeout(&wwg, limit) {
		finish("a Commit issued around Close did not return")
	}
	if verdict == "" && subWG0 != nil && !waitTimeout(subWG0, limit) {
		finish("a Subscribe call cancelled around Close did not return")
	}
	c.Eval(1)
	info := map[string]any{"options": ov.Name, "compactors": ov.Opt.NumCompactors, "l0_stall": ov.Opt.NumLevelZeroTablesStall, "calls_completed": tr.done.Load()}
	if p := panics.Load(); p != nil {
		ps := p.(string)
		kind := "panic"
		if strings.Contains(ps, "send on closed channel") {
			kind = "panic-send-on-closed-channel-during-close"
		}
		if strings.Contains(ps, "github.com/dgraph-io/badger/v4") {
			c.Violation("C38|"+kind, "a public call panicked inside badger: "+ps[:min(len(ps), 1500)], info)
		}
	}
	switch {
	case hung:
		what := verdict[:strings.Index(verdict, ")")+1]
		c.Violation("C38|no-progress|"+strings.TrimPrefix(what, "DEADLOCK "), verdict[:min(len(verdict), 300)], map[string]any{"info": info, "dump": verdict})
	case verdict != "":
		c.Inconclusive(verdict)
	}
	if cerr != nil && !errors.Is(cerr, badger.ErrDBClosed) {
		c.Count("close.errors", 1)
	}
	pts, _, evs := s.Counts()
	c.Count("calls.completed", tr.done.Load())
	c.Count("ev.memtable.rotate", evs["memtable.rotate"])
	c.Count("ev.compact.shape", evs["compact.shape"])
	c.Count("point.dropprefix.beforeLevels", pts["dropprefix.beforeLevels"])
	c.Count("point.dropall.afterPrepare", pts["dropall.afterPrepare"])
	c.Count("l0.stall_ms", db.VerifL0StallMs())
	c.Distinct(fmt.Sprintf("%s|compactors=%d|stall=%d|slow-compactions=%v", ov.Name, ov.Opt.NumCompactors, ov.Opt.NumLevelZeroTablesStall, slowCompactions))
	if idx < 2 {
		c.Sample(info)
	}
}

// c38FullL0: the database is opened with level 0 already at its stall limit (three earlier sessions
// without compactors each left one L0 table behind), a write lands in the memtable, and a maintenance
// call that has to flush that memtable is issued at once, before or while the compactors (which start
// with a random delay) drain level 0. Every call must return.
func c38FullL0(c *core.Ctx, work string, idx int, op string) {
	dir := filepath.Join(work, fmt.Sprintf("full%d", idx))
	_ = os.MkdirAll(dir, 0o755)
	defer os.RemoveAll(dir)
	r := c.Rand(fmt.Sprintf("c38-full-%d", idx))
	base := hist.SmallOptions(dir, 0, r).Opt
	base.MemTableSize = 64 << 10
	stall := 2 + idx%3
	prep := base
	prep.NumCompactors = 0
	prep.NumLevelZeroTablesStall = 1000
	prep.NumLevelZeroTables = 500
	prep.CompactL0OnClose = false
	for sess := 0; sess < stall; sess++ {
		db, err := badger.Open(prep)
		if err != nil {
			c.Inconclusive("open: " + err.Error())
			return
		}
		_ = db.Update(func(txn *badger.Txn) error {
			for j := 0; j < 20; j++ {
				if err := txn.Set([]byte(fmt.Sprintf("p%d-%02d", sess, j)), gen.Expand("x", 100)); err != nil {
					return err
				}
			}
			return nil
		})
		_ = db.Close()
	}
	opt := base
	opt.NumCompactors = 2 + idx%2
	opt.NumLevelZeroTables = 1
	opt.NumLevelZeroTablesStall = stall
	db, err := badger.Open(opt)
	if err != nil {
		c.Inconclusive("open: " + err.Error())
		return
	}
	l0 := 0
	for _, t := range db.Tables() {
		if t.Level == 0 {
			l0++
		}
	}
	tr := &callTracker{inflight: map[int64]string{}, started: map[int64]time.Time{}}
	done := make(chan struct{})
	go func() {
		defer close(done)
		defer func() { _ = recover() }()
		id := tr.begin("Update")
		_ = db.Update(func(txn *badger.Txn) error { return txn.Set([]byte("p0-new"), gen.Expand("y", 100)) })
		tr.end(id)
		id = tr.begin(op)
		switch op {
		case "DropPrefix":
			_ = db.DropPrefix([]byte("p0"))
		case "DropAll":
			_ = db.DropAll()
		case "Flatten":
			_ = db.Flatten(2)
		case "RunValueLogGC":
			_ = db.RunValueLogGC(0.5)
		}
		tr.end(id)
		id = tr.begin("Close")
		_ = db.Close()
		tr.end(id)
	}()
	c.Eval(1)
	c.Count("full_l0.cases", 1)
	if l0 >= stall {
		c.Count("full_l0.cases_opened_at_the_stall_limit", 1)
		c.Distinct(fmt.Sprintf("full-l0|%s|stall=%d", op, stall))
	}
	select {
	case <-done:
	case <-time.After(45 * time.Second):
		v, dead := analyse(tr, op+" right after opening with a full level 0")
		if dead {
			c.Violation("C38|no-progress|("+op+" right after opening with a full level 0)", v[:min(len(v), 300)], map[string]any{"l0_tables_at_open": l0, "stall_limit": stall, "dump": v})
		} else {
			c.Inconclusive(v)
		}
	}
}

// c38GCvsClose: RunValueLogGC has scanned its victim file and is about to write the live entries
// back when Close (or DropAll / DropPrefix, which only pause writes) arrives. The hook at the
// "gc.afterScan" schedule point starts the other call and lets the GC go on once that call is under
// way; every call must return.
func c38GCvsClose(c *core.Ctx, work string, idx int, other string) {
	r := c.Rand(fmt.Sprintf("c38-gc-%d", idx))
	dir := filepath.Join(work, fmt.Sprintf("gcclose%d", idx))
	_ = os.MkdirAll(dir, 0o755)
	defer os.RemoveAll(dir)
	o, oname := drvOptions(dir, []int{0, 2}[idx%2])
	o.MemTableSize = 1 << 20
	o.ValueThreshold = 32
	o.ValueLogMaxEntries = 24
	o.MaxLevels = 3
	o.NumLevelZeroTables = 1
	db, err := drv.Open(o, false)
	if err != nil {
		c.Inconclusive("open: " + err.Error())
		return
	}
	w := &drv.World{C: c, Sig: "C38|gc-vs-" + other, DB: db, Opt: o, M: model.New(), R: r}
	// live entries and junk in the same value-log files, junk overwritten and compacted away
	for i := 0; i < 12; i++ {
		_, _ = w.Commit([]drv.WriteSpec{{Key: []byte(fmt.Sprintf("keep%02d", i)), Len: 200}})
		_, _ = w.Commit([]drv.WriteSpec{{Key: []byte(fmt.Sprintf("junk%02d", i)), Len: 2000}})
	}
	for round := 0; round < 2; round++ {
		for i := 0; i < 18; i++ {
			_, _ = w.Commit([]drv.WriteSpec{{Key: []byte(fmt.Sprintf("junk%02d", i)), Len: 2000}})
		}
		w.Flush()
		w.AdvanceWatermark()
		w.CompactForce(0, 1)
	}
	tr := &callTracker{inflight: map[int64]string{}, started: map[int64]time.Time{}}
	var fired atomic.Bool
	var wg sync.WaitGroup
	hook := func(name string) {
		if name != "gc.afterScan" || !fired.CompareAndSwap(false, true) {
			return
		}
		wg.Add(1)
		go func() {
			defer wg.Done()
			defer func() { _ = recover() }()
			id := tr.begin(other)
			switch other {
			case "Close":
				_ = w.DB.Close()
			case "DropAll":
				_ = w.DB.DropAll()
			case "DropPrefix":
				_ = w.DB.DropPrefix([]byte("junk"))
			}
			tr.end(id)
		}()
		// let the other call get as far as it can while the GC is held here
		time.Sleep(time.Duration(20+r.Intn(60)) * time.Millisecond)
	}
	sched.Install(sched.Config{})
	sched.PointHook.Store(&hook)
	defer func() { sched.PointHook.Store(nil); sched.Uninstall() }()
	done := make(chan struct{})
	go func() {
		defer close(done)
		defer func() { _ = recover() }()
		id := tr.begin("RunValueLogGC")
		_ = w.DB.RunValueLogGC(0.001)
		tr.end(id)
		wg.Wait()
		if other != "Close" {
			id = tr.begin("Close")
			_ = w.DB.Close()
			tr.end(id)
		}
	}()
	c.Eval(1)
	select {
	case <-done:
	case <-time.After(45 * time.Second):
		v, dead := analyse(tr, other+" while RunValueLogGC writes its live entries back")
		if dead {
			c.Violation("C38|no-progress|("+other+" during the write-back of RunValueLogGC)", v[:min(len(v), 300)], map[string]any{"options": oname, "dump": v})
		} else {
			c.Inconclusive(v)
		}
		return
	}
	if fired.Load() {
		c.Count("gc_vs.cases_with_the_other_call_during_write_back", 1)
		c.Distinct(fmt.Sprintf("gc-vs-%s|%s", other, oname))
	} else {
		c.Count("gc_vs.cases_where_gc_found_nothing_to_rewrite", 1)
	}
}

// C38 public calls and Close always return.
func C38(c *core.Ctx) {
	c.Rule("bounded-progress restatement: with 2-4 compactors, 16 KiB memtables, NumLevelZeroTables=1 and stall at 2-3 tables (L0 stalls and full flush queues are the normal " +
		"state), 6 committers (Commit and CommitWith), 3 readers/iterators, a WriteBatch flusher and a maintenance goroutine (RunValueLogGC, DropPrefix, DropAll, Flatten, " +
		"Subscribe+cancel) run for 1.5-4 s with delays at flush/compaction/drop schedule points (every second round with compactions slowed to tens of milliseconds, so that L0 sits at its stall limit and writers are stalled while the maintenance calls arrive), then 2-6 subscribers are registered and Close is called while the committers keep committing and the subscribers' contexts are cancelled (some callbacks return errors) during the shutdown; every call is tracked; a " +
		"call older than 45 s starts an analysis (two full goroutine dumps 8 s apart + completed-call counter): unchanged blocked badger stacks and no completed call = violation " +
		"with the dump as witness, anything else = inconclusive; a panic inside badger raised by a public call is a violation; plus full-L0 cases: the database is re-opened with level 0 at its stall limit and a write + DropPrefix / DropAll / Flatten / RunValueLogGC + Close are issued at once; plus GC-write-back cases: RunValueLogGC is held at its after-scan schedule point with live entries to move while Close / DropAll / DropPrefix is started, then released - all calls must return; distinct = (options, compactors, stall) configurations")
	work := c.WorkDir()
	defer os.RemoveAll(work)
	for i := 0; i < c.Pick(8, 60); i++ {
		c38Round(c, work, i)
	}
	for i, op := range []string{"DropPrefix", "DropAll", "Flatten", "RunValueLogGC", "DropPrefix", "DropPrefix"} {
		if i < c.Pick(4, 6) || c.Thorough() {
			c38FullL0(c, work, i, op)
		}
	}
	for i, other := range []string{"Close", "DropAll", "Close", "DropPrefix", "Close", "Close"} {
		if i < c.Pick(3, 6) {
			c38GCvsClose(c, work, i, other)
		}
	}
	if c.Counter("gc_vs.cases_with_the_other_call_during_write_back") == 0 {
		c.Inconclusive("no Close/DropAll/DropPrefix arrived during a GC write-back")
	}
	if c.Counter("calls.completed") == 0 {
		c.Inconclusive("no calls completed")
	}
	if c.Counter("l0.stall_ms") == 0 {
		c.Inconclusive("writes were never stalled on a full level 0")
	}
	c.CheckRaces(nil, "", "")
	c.Assume("liveness is restated as bounded progress: a finite run cannot prove absence of deadlock, it can only exhibit one; StreamWriter (documented for unused databases) is exercised in C26")
}
