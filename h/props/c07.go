package props

import (
	"crypto/sha256"
	"fmt"
	"io/fs"
	"os"
	"os/exec"
	"path/filepath"
	"sort"
	"strings"
	"sync/atomic"
	"time"

	badger "github.com/dgraph-io/badger/v4"
	"github.com/dgraph-io/badger/v4/options"

	"verif/h/core"
	"verif/h/drv"
	"verif/h/gen"
	"verif/h/hist"
	"verif/h/sched"
)

// dump reads every version of every key plus the visible state, as comparable strings.
func dump(db *badger.DB, managed bool) []string {
	var out []string
	av := allVersions(db, managed)
	var keys []string
	for k := range av {
		keys = append(keys, k)
	}
	sort.Strings(keys)
	for _, k := range keys {
		for _, it := range av[k] {
			out = append(out, fmt.Sprintf("%x@%d dead=%v len=%d sum=%x meta=%d exp=%d disc=%v", it.Key, it.Version, it.Dead, it.ValLen, it.ValSum, it.UserMeta, it.ExpiresAt, it.Discard))
		}
	}
	return out
}

// treeHash hashes names, sizes, modes and contents of every file under the directories.
func treeHash(dirs ...string) (string, []string) {
	h := sha256.New()
	var names []string
	for _, d := range dirs {
		_ = filepath.WalkDir(d, func(p string, de fs.DirEntry, err error) error {
			if err != nil || de.IsDir() {
				return nil
			}
			st, err := os.Stat(p)
			if err != nil {
				return nil
			}
			b, _ := os.ReadFile(p)
			fmt.Fprintf(h, "%s|%d|%o|%x\n", p, st.Size(), st.Mode(), sha256.Sum256(b))
			names = append(names, fmt.Sprintf("%s:%d", filepath.Base(p), st.Size()))
			return nil
		})
	}
	sort.Strings(names)
	return fmt.Sprintf("%x", h.Sum(nil)), names
}

func diffDump(a, b []string) string {
	ma := map[string]bool{}
	for _, x := range a {
		ma[x] = true
	}
	mb := map[string]bool{}
	for _, x := range b {
		mb[x] = true
	}
	var d []string
	for _, x := range a {
		if !mb[x] {
			d = append(d, "-"+x)
		}
	}
	for _, x := range b {
		if !ma[x] {
			d = append(d, "+"+x)
		}
	}
	if len(d) > 12 {
		d = d[:12]
	}
	return strings.Join(d, "; ")
}

// C07 close / re-open preserves content; read-only opens change nothing.
func C07(c *core.Ctx) {
	c.Rule("driver histories (commits incl. deletes/expiry/value-log values, flushes, compactions, GC without deletes, managed and normal) stopped in states with an unflushed " +
		"memtable, pending L0 tables and a value-log tail (every third normal-mode history instead ends with a delete-only transaction whose tombstones a compaction had to retain; encrypted histories re-open with a 1 ms data-key rotation period), then 3-5 close/re-open cycles alternating read-write, read-only and changed compaction settings; the full dump " +
		"(every retained version of every key with value digest/meta/expiry, plus Get and iteration against the model) before Close must equal the dump after Open; around " +
		"each read-only open + full read session the file tree hash (names, sizes, modes, SHA-256) must be unchanged; thorough tier traces the read-only session with strace " +
		"and rejects any write-class open/truncate/unlink/rename; early-close cases: a prefetching iterator is closed while the multi-MiB value of the item it stands on is still being fetched, the transaction discarded and the database closed at once, then re-opened and read; distinct = (options, mode, reopen kind sequence) classes")
	work := c.WorkDir()
	defer os.RemoveAll(work)
	r := c.Rand("c07")
	n := c.Pick(14, 100)
	for i := 0; i < n; i++ {
		managed := i%4 == 1
		kinds := ""
		withGC := i%3 == 0
		df := 0.2
		if withGC {
			df = 0 // see driverRunX: GC histories write overwrites only (listed C15 finding)
		}
		driverRunX(c, "C07", work, i, managed, r, c.Pick(180, 350), withGC, nil, func(w *drv.World, step string) {
			if step != "end" {
				return
			}
			w.CloseSnapshots()
			// leave an unflushed memtable and a vlog tail behind
			for j := 0; j < 5; j++ {
				_ = w.RandomCommit(df, df)
			}
			if i%3 == 1 && !managed {
				// ... or, instead, end the history with deletes only, and push their markers through a
				// compaction that has to keep them (a reader from before the deletes is still open):
				// the newest versions stored are then retained tombstones in a compacted table
				w.Flush()
				w.OpenSnapshot()
				var specs []drv.WriteSpec
				for _, j := range w.R.Perm(len(w.Keys))[:3+w.R.Intn(4)] {
					specs = append(specs, drv.WriteSpec{Key: w.Keys[j], Del: true})
				}
				_, _ = w.Commit(specs)
				w.Flush()
				for l := 0; l < 2; l++ {
					w.CompactForce(l, 1)
				}
				w.CloseSnapshots()
				c.Count("reopen.histories_ending_in_compacted_tombstones", 1)
			}
			if len(w.Opt.EncryptionKey) > 0 {
				// encrypted histories re-open with a data-key rotation period that has always elapsed:
				// every read-write open generates a new data key, several within one second, and every
				// read-only open finds the newest key older than the period
				w.Opt.EncryptionKeyRotationDuration = time.Millisecond
				c.Count("reopen.histories_with_elapsed_key_rotation", 1)
			}
			cycles := 3 + w.R.Intn(3)
			for cy := 0; cy < cycles; cy++ {
				before := dump(w.DB, managed)
				if err := w.DB.Close(); err != nil {
					c.Violation("C07|close-error", err.Error(), w.Witness())
					return
				}
				opt := w.Opt
				kind := []string{"rw", "ro", "rw-changed", "rw-other-compression", "ro-other-compression", "rw-other-table-options"}[w.R.Intn(6)]
				kinds += kind + ","
				var h0 string
				switch kind {
				case "ro":
					opt.ReadOnly = true
					h0, _ = treeHash(opt.Dir, opt.ValueDir)
				case "rw-other-compression", "ro-other-compression":
					// every table records its own compression in the MANIFEST: opening with another
					// setting must read the existing tables as they were written
					for opt.Compression == w.Opt.Compression {
						opt.Compression = []options.CompressionType{options.None, options.Snappy, options.ZSTD}[w.R.Intn(3)]
					}
					if kind == "ro-other-compression" {
						opt.ReadOnly = true
						h0, _ = treeHash(opt.Dir, opt.ValueDir)
					}
				case "rw-other-table-options":
					// settings that only govern how NEW tables and values are written: existing data
					// must read the same
					opt.BlockSize = []int{256, 1024, 4096}[w.R.Intn(3)]
					opt.BloomFalsePositive = []float64{0, 0.01, 0.3}[w.R.Intn(3)]
					opt.ValueThreshold = []int64{32, 64, 1024}[w.R.Intn(3)]
					opt.BaseTableSize = []int64{2 << 10, 16 << 10}[w.R.Intn(2)]
				case "rw-changed":
					opt.NumCompactors = 2
					opt.NumLevelZeroTables = 2
					opt.NumLevelZeroTablesStall = 10
					opt.CompactL0OnClose = true
				}
				db, err := drv.Open(opt, managed)
				if err != nil {
					c.Violation("C07|reopen-error|"+kind, "Open failed: "+err.Error(), w.Witness())
					db, _ = drv.Open(w.Opt, managed)
					w.DB = db
					return
				}
				w.DB = db
				c.Count("reopen."+kind, 1)
				after := dump(w.DB, managed)
				if d := diffDump(before, after); d != "" {
					wit := w.Witness()
					wit["diff"] = d
					c.Violation("C07|dump-differs|"+kind, "the dump after re-open ("+kind+") differs from the dump before Close: "+d, wit)
				}
				st := hist.CheckState(c, "C07|after-reopen|"+kind, w.DB, w.M, hist.StateOpts{Managed: managed})
				c.Count("invariance.reads_checked", st.Gets+st.IterItems)
				if kind == "rw-other-compression" || kind == "rw-other-table-options" {
					_ = w.RandomCommit(df, df)
					_ = w.DB.Close()
					db, err = drv.Open(w.Opt, managed)
					if err != nil {
						c.Violation("C07|reopen-error|after-other-compression", err.Error(), nil)
						return
					}
					w.DB = db
					hist.CheckState(c, "C07|after-reopen|back-from-other-compression", w.DB, w.M, hist.StateOpts{Managed: managed})
				}
				if kind == "ro" || kind == "ro-other-compression" {
					if err := w.DB.Close(); err != nil {
						c.Violation("C07|ro-close-error", err.Error(), nil)
					}
					h1, names := treeHash(opt.Dir, opt.ValueDir)
					if h0 != h1 {
						c.Violation("C07|read-only-open-changed-files", "the file tree changed across a read-only open + read session", map[string]any{"files_after": names})
					}
					db, err = drv.Open(w.Opt, managed)
					if err != nil {
						c.Violation("C07|reopen-error|after-ro", err.Error(), nil)
						return
					}
					w.DB = db
				}
				if kind == "rw-changed" {
					// background compactors ran with different settings; state must still equal the model
					time.Sleep(30 * time.Millisecond)
					hist.CheckState(c, "C07|after-reopen|rw-changed-later", w.DB, w.M, hist.StateOpts{Managed: managed})
					_ = w.DB.Close()
					db, err = drv.Open(w.Opt, managed)
					if err != nil {
						c.Violation("C07|reopen-error|after-changed", err.Error(), nil)
						return
					}
					w.DB = db
				}
				for j := 0; j < 3; j++ {
					_ = w.RandomCommit(df, df)
				}
			}
			c.Distinct(fmt.Sprintf("managed=%v|kinds=%s", managed, kinds))
		})
	}
	for i := 0; i < c.Pick(3, 12); i++ {
		c07EarlyClose(c, work, i)
	}
	if c.Thorough() {
		c07Strace(c, work)
	}
	if c.Counter("reopen.ro") == 0 || c.Counter("reopen.rw") == 0 {
		c.Inconclusive("a re-open kind was never exercised")
	}
	c.Sample(map[string]any{"cycle": "dump; Close; Open(kind); dump; compare; model check; (ro: tree hash before/after)"})
	c.Assume("GC steps run without deletes (known C15 finding); the AllVersions dump is taken with no background compaction between dump and Close")
}

// c07EarlyClose: a prefetching iterator is closed while it stands on an item whose (large, value-log)
// value is still being fetched, the transaction is discarded and the database closed at once. Every
// call must return and the next Open must read the same data.
func c07EarlyClose(c *core.Ctx, work string, idx int) {
	dir := filepath.Join(work, fmt.Sprintf("early%d", idx))
	_ = os.MkdirAll(dir, 0o755)
	defer os.RemoveAll(dir)
	o, oname := drvOptions(dir, []int{0, 2, 5}[idx%3])
	o.ValueLogFileSize = 64 << 20
	o.ValueLogMaxEntries = 1000
	o.MemTableSize = 1 << 20
	db, err := drv.Open(o, false)
	if err != nil {
		c.Inconclusive("open: " + err.Error())
		return
	}
	big := gen.Expand(fmt.Sprintf("early%d", idx), (4+idx%5)<<20)
	_ = db.Update(func(txn *badger.Txn) error { return txn.Set([]byte("a-first"), big) })
	for i := 0; i < 30; i++ {
		_ = db.Update(func(txn *badger.Txn) error { return txn.Set([]byte(fmt.Sprintf("b%03d", i)), gen.Expand("s", 100)) })
	}
	for round := 0; round < 6; round++ {
		// the fetch of the current item's value is held at its schedule point until Close has
		// returned (or 300 ms have passed: an iterator Close that waits for the fetch gets it)
		var closing atomic.Bool
		var held atomic.Int64
		hook := func(name string) {
			if name != "item.beforeVlogRead" {
				return
			}
			if held.Add(1) != 1 {
				return // only the fetch of the item the iterator stands on is held
			}
			for i := 0; i < 300 && !closing.Load(); i++ {
				time.Sleep(time.Millisecond)
			}
			if closing.Load() {
				// diagnostic, not a verdict: the fetch was still pending when DB.Close returned
				c.Count("reopen.value_fetches_still_pending_when_close_returned", 1)
			}
		}
		sched.Install(sched.Config{})
		sched.PointHook.Store(&hook)
		txn := db.NewTransaction(false)
		io := badger.DefaultIteratorOptions
		io.PrefetchSize = 1 + round%3
		it := txn.NewIterator(io)
		it.Rewind() // stands on a-first; its value is being fetched in the background
		it.Close()
		txn.Discard()
		err := db.Close()
		closing.Store(true)
		time.Sleep(5 * time.Millisecond) // a fetch that outlived Close runs into the closed database now
		sched.PointHook.Store(nil)
		sched.Uninstall()
		if held.Load() > 0 {
			c.Count("reopen.value_fetches_held_across_iterator_close", held.Load())
		}
		if err != nil {
			c.Violation("C07|early-close|close-error", err.Error(), oname)
			return
		}
		c.Count("reopen.closes_right_after_an_early_closed_prefetching_iterator", 1)
		if db, err = drv.Open(o, false); err != nil {
			c.Violation("C07|early-close|reopen-error", err.Error(), oname)
			return
		}
		err = db.View(func(txn *badger.Txn) error {
			it, err := txn.Get([]byte("a-first"))
			if err != nil {
				return err
			}
			v, err := it.ValueCopy(nil)
			if err == nil && string(v) != string(big) {
				err = fmt.Errorf("value differs (%d bytes, wrote %d)", len(v), len(big))
			}
			return err
		})
		if err != nil {
			c.Violation("C07|early-close|read-after-reopen", err.Error(), oname)
		}
	}
	c.Eval(1)
	_ = db.Close()
	c.Distinct("early-close|" + oname)
}

// c07Strace runs a read-only open + read session in a child under strace and rejects write-class syscalls.
func c07Strace(c *core.Ctx, work string) {
	dir := filepath.Join(work, "strace-db")
	_ = os.MkdirAll(dir, 0o755)
	opt, _ := drvOptions(dir, 0)
	db, err := badger.Open(opt)
	if err != nil {
		return
	}
	for i := 0; i < 400; i++ {
		_ = db.Update(func(txn *badger.Txn) error {
			return txn.Set([]byte(fmt.Sprintf("k%04d", i)), make([]byte, 10+i%300))
		})
		if i%100 == 99 {
			_, _ = db.VerifRotateMemtable()
		}
	}
	_ = db.Close()
	out := filepath.Join(work, "strace.out")
	self, _ := os.Executable()
	cmd := exec.Command("strace", "-f", "-y", "-o", out, "-e", "trace=openat,open,creat,truncate,ftruncate,unlink,unlinkat,rename,renameat,renameat2,mkdir,mkdirat,mmap",
		self, "C07", "--child-ro", dir)
	if b, err := cmd.CombinedOutput(); err != nil {
		c.Inconclusive("strace child failed: " + err.Error() + " " + string(b))
		return
	}
	b, _ := os.ReadFile(out)
	bad := 0
	for _, ln := range strings.Split(string(b), "\n") {
		if !strings.Contains(ln, dir) {
			continue
		}
		c.Count("strace.syscalls_on_db_dir", 1)
		w := strings.Contains(ln, "O_WRONLY") || strings.Contains(ln, "O_RDWR") || strings.Contains(ln, "O_CREAT") || strings.Contains(ln, "O_TRUNC") ||
			strings.Contains(ln, "unlink") || strings.Contains(ln, "rename") || strings.Contains(ln, "truncate(") || strings.Contains(ln, "mkdir")
		if strings.Contains(ln, "mmap(") && strings.Contains(ln, "PROT_WRITE") && strings.Contains(ln, "MAP_SHARED") {
			w = true
		}
		if w && !strings.Contains(ln, "ENOENT") {
			bad++
			if bad <= 3 {
				c.Violation("C07|strace|write-class-syscall-in-read-only-session", "read-only open issued: "+ln, nil)
			}
		}
	}
	c.Distinct("strace-ro-session")
}

// ChildRO is the child role used by c07Strace: open read-only, read everything, close.
func ChildRO(dir string) int {
	opt, _ := drvOptions(dir, 0)
	opt.ReadOnly = true
	db, err := badger.Open(opt)
	if err != nil {
		fmt.Println("child open:", err)
		return 3
	}
	n := len(dump(db, false))
	fmt.Println("child read", n, "versions")
	if err := db.Close(); err != nil {
		return 4
	}
	return 0
}
