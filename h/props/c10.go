package props

import (
	"fmt"
	"os"
	"path/filepath"
	"strings"
	"sync"
	"time"

	"verif/h/core"
)

// C10 with SyncWrites, acknowledged commits survive loss of unsynced data.
func C10(c *core.Ctx) {
	c.Rule("SyncWrites workload children (as C08; every second configuration with the value log in a separate ValueDir) feed badger's persistence hook events into a durable-image recorder: a file's bytes are those read back at its last msync/fsync event, " +
		"a directory entry (create, unlink, rename) counts only after a later directory sync of its directory, unsynced files are zero-filled at their creation size; at chosen event " +
		"numbers (first/last/random occurrence of every event class + uniform) and after Close the image is written out under the side-log lock, so every acknowledgement logged before " +
		"it must be contained; a verifier child opens each image: Open succeeds, every transaction acknowledged before the freeze is visible, recovered set is a commit-order prefix, " +
		"state = that prefix applied in order, structure validator; distinct = (configuration, event class at which the image was frozen)")
	work := c.WorkDir()
	defer os.RemoveAll(work)
	cfgs := []crashConfig{
		{"syncwrites+plain", 7, "plain", true, 4, 60, 0},
		{"syncwrites+base+deletes", 0, "deletes", true, 4, 60, 0},
		{"syncwrites+aes128+gc", 3, "gc", true, 4, 60, 0},
	}
	if !c.Thorough() {
		cfgs = cfgs[:2]
	}
	type job struct {
		cfg  crashConfig
		spec *CrashSpec
		si   *sideInfo
		n    int64
		cls  string
	}
	var jobs []job
	var cleanup []string
	for ci, cfg := range cfgs {
		// counting run
		s0, sp0 := newCrashSpec(c, work, cfg, 0, fmt.Sprintf("count-%d", ci))
		s0.EndMode = "close"
		writeSpec(s0, sp0)
		out, timedOut, _ := runChild(120*time.Second, nil, c.ID, "--child-crash", sp0)
		si0 := parseSideLog(s0.SideLog)
		os.RemoveAll(filepath.Dir(sp0))
		if timedOut || !si0.closed {
			c.Inconclusive(fmt.Sprintf("counting run for %s did not end: %s", cfg.name, tailStr(out, 400)))
			continue
		}
		if ci == 0 || c.Thorough() {
			hookFidelity(c, work, cfg, ci)
		}
		pts := pickKillPoints(c, si0.events, c.Pick(1, 4), c.Pick(10, 80), "img-"+cfg.name)
		// image run
		s, sp := newCrashSpec(c, work, cfg, 0, fmt.Sprintf("img-%d", ci))
		s.EndMode = "close"
		s.SeparateValueDir = ci%2 == 1 // value log in its own directory: its entries need their own directory syncs
		s.ImageAt = pts
		s.ImageDir = filepath.Join(filepath.Dir(sp), "images")
		writeSpec(s, sp)
		cleanup = append(cleanup, filepath.Dir(sp))
		out, timedOut, _ = runChild(300*time.Second, nil, c.ID, "--child-crash", sp)
		si := parseSideLog(s.SideLog)
		if timedOut || si.fatal != "" {
			c.Inconclusive(fmt.Sprintf("image run for %s failed: %s %s", cfg.name, si.fatal, tailStr(out, 400)))
			continue
		}
		c.Eval(1)
		c.Count("image.events_in_counting_run", int64(len(si0.events)))
		for _, n := range si.images {
			jobs = append(jobs, job{cfg: cfg, spec: s, si: si, n: n, cls: si.imageClass[n]})
		}
	}
	var wg sync.WaitGroup
	ch := make(chan job)
	for w := 0; w < 14; w++ {
		wg.Add(1)
		go func() {
			defer wg.Done()
			for j := range ch {
				sp := *j.spec
				sp.Dir = filepath.Join(j.spec.ImageDir, fmt.Sprint(j.n))
				specPath := filepath.Join(j.spec.ImageDir, fmt.Sprintf("spec-%d.json", j.n))
				writeSpec(&sp, specPath)
				acked := j.si.ackedBeforeImage[j.n]
				wit := map[string]any{"case": fmt.Sprintf("durable image at event %d (%s)", j.n, j.cls), "config": j.cfg.name, "event": j.n, "event_class": j.cls,
					"acked_before_image": len(acked), "image_files": listDir(sp.Dir), "spec": sp}
				if verifyRecovered(c, "C10|image", &sp, specPath, j.si, acked, wit) {
					c.Eval(1)
					c.Count("image.verified", 1)
					c.Count("image.acked_required", int64(len(acked)))
					c.Distinct(j.cfg.name + "|" + j.cls)
				}
				os.RemoveAll(sp.Dir)
			}
		}()
	}
	for _, j := range jobs {
		ch <- j
	}
	close(ch)
	wg.Wait()
	for _, d := range cleanup {
		os.RemoveAll(d)
	}
	if c.Counter("image.verified") == 0 {
		c.Inconclusive("no durable image was verified")
	}
	c.Sample(map[string]any{"images": len(jobs), "example": "image = files as of their last sync event, directory entries as of the last directory sync; verifier opens it; every commit acknowledged before the freeze must be visible"})
	c.Assume("power loss is simulated from badger's own hook events (tag verif): a sync that happens without a hook event is not credited; a hook event without a real sync would be over-credited, which the strace audit (sync-class hook events <= real msync/fsync/fdatasync calls of the same run) rules out for the audited runs")
}

// hookFidelity runs one SyncWrites workload child under strace and compares the number of sync-class
// hook events (file syncs + directory syncs) with the number of real msync/fsync/fdatasync system
// calls of the same process: every credited sync must be backed by a real one.
func hookFidelity(c *core.Ctx, work string, cfg crashConfig, ci int) {
	s, sp := newCrashSpec(c, work, cfg, 0, fmt.Sprintf("fidelity-%d", ci))
	s.EndMode = "close"
	s.Txns = 30
	writeSpec(s, sp)
	defer os.RemoveAll(filepath.Dir(sp))
	trace := filepath.Join(filepath.Dir(sp), "strace.out")
	out, timedOut, _ := runChild(300*time.Second, []string{"strace", "-f", "-o", trace, "-e", "trace=msync,fsync,fdatasync"}, c.ID, "--child-crash", sp)
	si := parseSideLog(s.SideLog)
	if timedOut || !si.closed {
		c.Inconclusive("hook-fidelity run did not finish: " + tailStr(out, 200))
		return
	}
	hooks := 0
	for _, e := range si.events {
		if strings.HasPrefix(e, "fs.sync.") || strings.HasPrefix(e, "fs.syncdir.") {
			hooks++
		}
	}
	b, err := os.ReadFile(trace)
	if err != nil {
		c.Inconclusive("strace output missing: " + err.Error())
		return
	}
	real := strings.Count(string(b), " msync(") + strings.Count(string(b), " fsync(") + strings.Count(string(b), " fdatasync(")
	c.Count("fidelity.hook_sync_events", int64(hooks))
	c.Count("fidelity.real_sync_syscalls", int64(real))
	c.Eval(1)
	if hooks == 0 || real == 0 {
		c.Inconclusive(fmt.Sprintf("hook-fidelity run observed %d hook events and %d system calls", hooks, real))
		return
	}
	if hooks > real {
		c.Violation("C10|hook-fidelity|sync-event-without-syscall", fmt.Sprintf("%d sync-class hook events but only %d msync/fsync/fdatasync system calls in the same run: a durability point is reported without a real sync", hooks, real), map[string]any{"config": cfg.name})
	}
	c.Distinct("hook-fidelity|" + cfg.name)
}
