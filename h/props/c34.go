package props

import (
	"context"
	"fmt"
	"os"
	"runtime"
	"sync"
	"sync/atomic"
	"time"

	badger "github.com/dgraph-io/badger/v4"
	"github.com/dgraph-io/badger/v4/y"
	"github.com/dgraph-io/ristretto/v2/z"

	"verif/h/core"
	"verif/h/hist"
	"verif/h/sched"
)

// watermarkRound drives one y.WaterMark under badger's usage contract (Begin calls are serialised
// in non-decreasing index order; Done in any order) with shadow counters and an observer.
func watermarkRound(c *core.Ctx, round int, nWorkers, nIdx int, dup, sparse, reuse bool) {
	r := c.Rand(fmt.Sprintf("c34-wm-%d", round))
	closer := z.NewCloser(1)
	w := &y.WaterMark{Name: "verif"}
	w.Init(closer)
	defer closer.SignalAndWait()
	const maxIdx = 1 << 14
	begun := make([]atomic.Int32, maxIdx)
	doneCalled := make([]atomic.Int32, maxIdx)
	var next, lastBegun atomic.Uint64
	next.Store(1)
	var anchorHeld bool // guarded by mu
	var anchorIdx uint64
	var reBegins atomic.Int64
	var mu sync.Mutex
	var wg sync.WaitGroup
	stopObs := make(chan struct{})
	var obsWG sync.WaitGroup
	var bad atomic.Value
	var observations atomic.Int64
	var pendingSeen atomic.Int64
	// observer
	obsWG.Add(1)
	go func() {
		defer obsWG.Done()
		for {
			select {
			case <-stopObs:
				return
			default:
			}
			hi := next.Load()
			snap := make([]int32, hi)
			for i := uint64(1); i < hi; i++ {
				snap[i] = begun[i].Load()
			}
			d := w.DoneUntil()
			observations.Add(1)
			for i := uint64(1); i < hi && i <= d; i++ {
				if e := doneCalled[i].Load(); e < snap[i] {
					bad.CompareAndSwap(nil, fmt.Sprintf("DoneUntil()=%d while index %d had %d Begin calls returned and only %d Done calls started", d, i, snap[i], e))
				}
			}
			if d+1 < hi {
				pendingSeen.Add(1)
			}
			runtime.Gosched()
		}
	}()
	// waiters
	var waitersBlocked atomic.Int64
	var waiterWG sync.WaitGroup
	startWaiter := func(idx uint64) {
		waiterWG.Add(1)
		waitersBlocked.Add(1)
		go func() {
			defer waiterWG.Done()
			ctx, cancel := context.WithTimeout(context.Background(), 20*time.Second)
			defer cancel()
			err := w.WaitForMark(ctx, idx)
			waitersBlocked.Add(-1)
			if err != nil {
				bad.CompareAndSwap(nil, fmt.Sprintf("a waiter for index %d was still blocked after 20s although every index had been done for long (lost wake-up); DoneUntil=%d", idx, w.DoneUntil()))
				return
			}
			if d := w.DoneUntil(); d < idx {
				bad.CompareAndSwap(nil, fmt.Sprintf("WaitForMark(%d) returned while DoneUntil()=%d", idx, d))
			}
		}()
	}
	seeds := make([]int64, nWorkers)
	for i := range seeds {
		seeds[i] = r.Int63()
	}
	for g := 0; g < nWorkers; g++ {
		wg.Add(1)
		go func(g int) {
			defer wg.Done()
			rr := c.Rand(fmt.Sprintf("c34-wm-%d-%d-%d", round, g, seeds[g]))
			for n := 0; n < nIdx; n++ {
				mu.Lock()
				// re-use (badger's readMark: readers at the same read timestamp come and go): an index
				// whose holders are all done may be begun again - here only while a smaller index is
				// certainly still held (the anchor), so the mark cannot have reached it yet
				if reuse && g != 0 && anchorHeld && lastBegun.Load() > anchorIdx && rr.Intn(2) == 0 {
					idx := lastBegun.Load()
					w.Begin(idx)
					begun[idx].Add(1)
					reBegins.Add(1)
					mu.Unlock()
					if rr.Intn(3) == 0 {
						time.Sleep(time.Duration(rr.Intn(200)) * time.Microsecond)
					}
					doneCalled[idx].Add(1)
					w.Done(idx)
					continue
				}
				prev := next.Load() - 1
				step := uint64(1)
				if sparse {
					step = uint64(1 + rr.Intn(5)) // sparse timestamps: indices in the gaps are never begun
				}
				idx := next.Add(step) - 1
				if idx >= maxIdx-1 {
					next.Add(^(step - 1)) // undo
					mu.Unlock()
					return
				}
				lastBegun.Store(idx)
				w.Begin(idx)
				begun[idx].Add(1)
				isAnchor := reuse && g == 0 && !anchorHeld && rr.Intn(3) == 0
				if isAnchor {
					anchorHeld, anchorIdx = true, idx
					mu.Unlock()
					time.Sleep(time.Duration(1+rr.Intn(4)) * time.Millisecond)
					mu.Lock()
					anchorHeld = false
					mu.Unlock()
					doneCalled[idx].Add(1)
					w.Done(idx)
					continue
				}
				twice := dup && rr.Intn(3) == 0
				if twice {
					// two overlapping holders of the same index (transactions with equal read
					// timestamps); re-beginning an index after it was reported done is outside the claim
					w.Begin(idx)
					begun[idx].Add(1)
				}
				mu.Unlock()
				if twice {
					wg.Add(1)
					d := time.Duration(rr.Intn(400)) * time.Microsecond
					go func(i uint64) {
						defer wg.Done()
						time.Sleep(d)
						doneCalled[i].Add(1)
						w.Done(i)
					}(idx)
				}
				if rr.Intn(5) == 0 {
					// a reader may wait for any timestamp up to the newest begun one, also one that no
					// commit ever used (it is released when the mark passes it)
					target := idx
					if sparse && idx > prev+1 {
						target = prev + 1 + uint64(rr.Int63n(int64(idx-prev)))
					}
					startWaiter(target)
				}
				switch rr.Intn(4) {
				case 0:
					runtime.Gosched()
				case 1:
					time.Sleep(time.Duration(rr.Intn(200)) * time.Microsecond)
				}
				doneCalled[idx].Add(1)
				w.Done(idx)
			}
		}(g)
	}
	wg.Wait()
	waiterWG.Wait()
	close(stopObs)
	obsWG.Wait()
	final := lastBegun.Load()
	deadline := time.Now().Add(5 * time.Second)
	for w.DoneUntil() < final && time.Now().Before(deadline) {
		time.Sleep(time.Millisecond)
	}
	if d := w.DoneUntil(); d != final {
		bad.CompareAndSwap(nil, fmt.Sprintf("all indices up to %d were begun and done but DoneUntil() stays at %d", final, d))
	}
	c.Eval(1)
	c.Count("wm.observations", observations.Load())
	c.Count("wm.observations_with_pending_indices", pendingSeen.Load())
	c.Count("wm.indices", int64(final))
	c.Count("wm.rebegins_of_finished_indices", reBegins.Load())
	if b := bad.Load(); b != nil {
		c.Violation("C34|watermark|"+firstWords(b.(string)), b.(string), map[string]any{"workers": nWorkers, "indices": final, "duplicates": dup, "sparse": sparse, "reuse": reuse})
	}
	if pendingSeen.Load() > 0 {
		c.Distinct(fmt.Sprintf("watermark|workers=%d|dup=%v|sparse=%v|reuse=%v", nWorkers, dup, sparse, reuse))
	}
}

// watermarkStopRound: once the closer handed to Init has been signalled (badger: oracle.Stop in
// DB.Close) nothing processes marks any more, so Begin/Done/WaitForMark must not block their callers.
// The verdict is state-based: closer.Wait() has returned, hence no further progress is possible and
// a call still blocked 10 s later is stuck for good.
func watermarkStopRound(c *core.Ctx, round int) {
	r := c.Rand(fmt.Sprintf("c34-stop-%d", round))
	closer := z.NewCloser(1)
	w := &y.WaterMark{Name: "verif-stop"}
	w.Init(closer)
	pending := 1 + r.Intn(5)
	for i := 1; i <= pending; i++ {
		w.Begin(uint64(i))
	}
	var early sync.WaitGroup // waiters that are already parked when the closer is signalled
	var blocked atomic.Int64
	var wrongNil atomic.Int64
	wait := func(wg *sync.WaitGroup, idx uint64) {
		wg.Add(1)
		blocked.Add(1)
		go func() {
			defer wg.Done()
			err := w.WaitForMark(context.Background(), idx)
			blocked.Add(-1)
			if err == nil && w.DoneUntil() < idx {
				wrongNil.Add(1)
			}
		}()
	}
	for i := 0; i < 1+r.Intn(4); i++ {
		wait(&early, uint64(1+r.Intn(pending)))
	}
	time.Sleep(time.Duration(r.Intn(300)) * time.Microsecond)
	closer.SignalAndWait()
	var late sync.WaitGroup
	n := 150 + r.Intn(200) // more than the 100-slot mark channel holds
	for g := 0; g < 4; g++ {
		late.Add(1)
		blocked.Add(1)
		go func(g int) {
			defer late.Done()
			for i := 0; i < n; i++ {
				idx := uint64(pending + 1 + g*n + i)
				w.Begin(idx)
				w.Done(idx)
			}
			blocked.Add(-1)
		}(g)
	}
	for i := 0; i < 3; i++ {
		wait(&late, uint64(1+r.Intn(pending)))
	}
	okEarly := waitTimeout(&early, 10*time.Second)
	okLate := waitTimeout(&late, 10*time.Second)
	c.Eval(1)
	c.Count("wm.stop_rounds", 1)
	if !okEarly || !okLate {
		c.Violation("C34|watermark|blocked-after-stop", fmt.Sprintf("%d watermark calls (Begin/Done/WaitForMark) are still blocked 10 s after the closer was signalled and the processing goroutine exited", blocked.Load()),
			map[string]any{"pending_indices": pending, "marks_after_stop": 8 * n, "waiters_parked_before_stop_released": okEarly})
	}
	if wrongNil.Load() > 0 {
		c.Violation("C34|watermark|early-wakeup", "WaitForMark returned nil after the closer was signalled although the index was not done", map[string]any{"pending_indices": pending})
	}
	c.Distinct("watermark-stop")
}

// closeRaceRound: transactions started while Close is completing must return (C34: a reader is
// always released once every commit at or below its timestamp has finished; here the commits have
// finished - refused with ErrBlockedWrites - but the oracle was stopped).
func closeRaceRound(c *core.Ctx, work string, round int) {
	r := c.Rand(fmt.Sprintf("c34-close-%d", round))
	dir := fmt.Sprintf("%s/close%d", work, round)
	_ = os.MkdirAll(dir, 0o755)
	defer os.RemoveAll(dir)
	ov := hist.SmallOptions(dir, 0, r)
	db, err := badger.Open(ov.Opt)
	if err != nil {
		c.Inconclusive("open: " + err.Error())
		return
	}
	var closed atomic.Bool
	var wg sync.WaitGroup
	var afterClose, refused atomic.Int64
	for g := 0; g < 8; g++ {
		wg.Add(1)
		go func(g int) {
			defer wg.Done()
			defer func() { _ = recover() }() // a panic in a call racing with Close is C38's business
			for n := 0; !closed.Load(); n++ {
				txn := db.NewTransaction(true)
				_ = txn.Set([]byte{byte('a' + g)}, []byte(fmt.Sprintf("v%d", n)))
				if err := txn.Commit(); err != nil {
					refused.Add(1)
				}
				txn.Discard()
				if db.IsClosed() {
					afterClose.Add(1)
				}
			}
		}(g)
	}
	time.Sleep(time.Duration(2+r.Intn(30)) * time.Millisecond)
	cerr := make(chan error, 1)
	go func() { cerr <- db.Close() }()
	select {
	case <-cerr:
	case <-time.After(60 * time.Second):
		c.Inconclusive("Close did not return within 60 s (C38 decides)")
		return
	}
	time.Sleep(time.Duration(r.Intn(2000)) * time.Microsecond) // calls keep arriving for a moment, as they would from callers not synchronised with Close
	closed.Store(true)
	c.Eval(1)
	c.Count("close.rounds", 1)
	c.Count("close.calls_overlapping_close", afterClose.Load())
	c.Count("close.commits_refused", refused.Load())
	if !waitTimeout(&wg, 20*time.Second) {
		buf := make([]byte, 4<<20)
		buf = buf[:runtime.Stack(buf, true)]
		c.Violation("C34|oracle|reader-stranded-by-close", "transactions started while Close was completing are still blocked 20 s after Close returned although every commit has finished (refused or applied)",
			map[string]any{"dump": string(buf[:min(len(buf), 20000)])})
	}
	if afterClose.Load() > 0 {
		c.Distinct("close-race")
	}
}

func firstWords(s string) string {
	switch {
	case len(s) > 10 && s[:10] == "DoneUntil(":
		return "done-while-pending"
	case len(s) > 8 && s[:8] == "a waiter":
		return "lost-wakeup"
	case len(s) > 11 && s[:11] == "WaitForMark":
		return "early-wakeup"
	}
	return "stuck"
}

// C34 the oracle and watermarks never expose unfinished commits or strand readers.
func C34(c *core.Ctx) {
	c.Rule("(i) y.WaterMark under badger's usage contract (Begin serialised in increasing order - contiguous or, in half of the rounds, sparse with readers waiting on never-begun timestamps inside the gaps -, an index may be held twice at once and, in a third of the rounds, be begun again after all its holders finished while a smaller index is still held, Done in any order) with 4-16 goroutines, shadow counters " +
		"updated after Begin returns / before Done is called, and an observer that snapshots them around DoneUntil(): an index <= DoneUntil with more returned Begins than started " +
		"Dones is a violation; waiters must return (and only once DoneUntil >= index), a waiter still blocked 20 s after everything was done is a lost wake-up; (ii) recorded " +
		"histories of many small commits and transaction starts with delays at commit.afterTs / write.afterVlog / commit.beforeDone / readts.beforeWait, monitored through hooks: " +
		"no read timestamp may be granted while a commit at or below it is in flight (in-flight set maintained inside the oracle's lock), and the read oracle confirms that " +
		"every transaction sees all commits <= its read timestamp; (iv) stop behaviour: after the closer was signalled (oracle.Stop in Close) Begin/Done/WaitForMark " +
		"must not block (more marks than the channel holds are sent), and transactions started by 8 goroutines while Close completes must all return; (iii) race-detector reports in y/watermark.go or the oracle are violations; distinct = configurations in which the " +
		"monitored window was actually observed open")
	for i, v0 := 0, c.Violations(); i < c.Pick(40, 400) && c.Violations() == v0; i++ { // a stuck waiter costs 20 s: stop at the first
		watermarkRound(c, i, 4+i%13, c.Pick(150, 400), i%2 == 1, i%4 >= 2, i%3 == 2)
	}
	// (ii)
	work := c.WorkDir()
	defer os.RemoveAll(work)
	for i, v0 := 0, c.Violations(); i < c.Pick(30, 300) && c.Violations() == v0; i++ {
		watermarkStopRound(c, i) // a stuck round costs 20 s: stop at the first one
	}
	for i, v0 := 0, c.Violations(); i < c.Pick(30, 300) && c.Violations() == v0; i++ {
		closeRaceRound(c, work, i)
	}
	idx := 0
	delays := sched.Config{Prob: 0.2, MaxSleep: 2 * time.Millisecond, ProbBy: map[string]float64{"commit.afterTs": 0.3, "commit.beforeDone": 0.3, "write.afterVlog": 0.3,
		"write.beforeAck": 0.2, "readts.beforeWait": 0.3, "commit.afterSend": 0.2}}
	for round := 0; round < c.Pick(1, 6); round++ {
		for _, v := range []int{0, 7, 4, 1} {
			idx++
			hr := HistRun{Variant: v, Sched: delays, NKeys: 12,
				Mix: func(keys [][]byte) hist.Mix {
					m := hist.DefaultMix(keys)
					m.Clients = 16
					m.TxnsPerClient = c.Pick(100, 250)
					m.ROFrac = 0.5
					m.IterFrac = 0.05
					m.MaxReads = 2
					m.MaxWrites = 2
					m.AsyncFrac = 0.3
					m.HeldFrac = 0
					m.ValSizes = []int{24, 100}
					return m
				}}
			res, err := runHistory(c, work, idx, hr)
			if err != nil {
				c.Inconclusive(err.Error())
				continue
			}
			c.Eval(1)
			for _, b := range res.S.OracleViolations() {
				c.Violation("C34|oracle|readts-granted-while-commit-in-flight", b, res.Name)
			}
			reportProbs(c, "C34|oracle", res.Probs, res.Name)
			hist.CheckReads(c, "C34|oracle", res.H, res.M)
			hist.CheckCommitOrder(c, "C34|oracle", res.H)
			addSchedCoverage(c, res.S)
			if res.S.ReadsOverlappingCommit.Load() > 0 {
				c.Distinct("oracle|" + res.Name)
			}
			if idx <= 2 {
				c.Sample(map[string]any{"options": res.Name, "readts_grants": res.S.Grants.Load(), "grants_while_commit_in_flight": res.S.ReadsOverlappingCommit.Load()})
			}
			_ = res.DB.Close()
			_ = os.RemoveAll(res.Dir)
		}
	}
	if c.Counter("wm.observations_with_pending_indices") == 0 || c.Counter("readts_grants_while_commit_in_flight") == 0 {
		c.Inconclusive("the monitored windows were never observed open")
	}
	c.CheckRaces([]string{"/y.(*WaterMark)", "badger/v4.(*oracle)"}, "C34|race", "data race reported in the watermark or oracle code")
	c.Assume("bounded: 4-16 goroutines, hundreds of indices per round; interleavings come from contention and injected yields/sleeps")
}
