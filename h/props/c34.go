package props

import (
	"context"
	"fmt"
	"os"
	"runtime"
	"sync"
	"sync/atomic"
	"time"

	"github.com/dgraph-io/badger/v4/y"
	"github.com/dgraph-io/ristretto/v2/z"

	"verif/h/core"
	"verif/h/hist"
	"verif/h/sched"
)

// watermarkRound drives one y.WaterMark under badger's usage contract (Begin calls are serialised
// in non-decreasing index order; Done in any order) with shadow counters and an observer.
func watermarkRound(c *core.Ctx, round int, nWorkers, nIdx int, dup bool) {
	r := c.Rand(fmt.Sprintf("c34-wm-%d", round))
	closer := z.NewCloser(1)
	w := &y.WaterMark{Name: "verif"}
	w.Init(closer)
	defer closer.SignalAndWait()
	const maxIdx = 1 << 14
	begun := make([]atomic.Int32, maxIdx)
	doneCalled := make([]atomic.Int32, maxIdx)
	var next atomic.Uint64
	next.Store(1)
	var mu sync.Mutex
	var wg sync.WaitGroup
	stopObs := make(chan struct{})
	var obsWG sync.WaitGroup
	var bad atomic.Value
	var observations atomic.Int64
	var pendingSeen atomic.Int64
	// observer
	obsWG.Add(1)
	go func() {
		defer obsWG.Done()
		for {
			select {
			case <-stopObs:
				return
			default:
			}
			hi := next.Load()
			snap := make([]int32, hi)
			for i := uint64(1); i < hi; i++ {
				snap[i] = begun[i].Load()
			}
			d := w.DoneUntil()
			observations.Add(1)
			for i := uint64(1); i < hi && i <= d; i++ {
				if e := doneCalled[i].Load(); e < snap[i] {
					bad.CompareAndSwap(nil, fmt.Sprintf("DoneUntil()=%d while index %d had %d Begin calls returned and only %d Done calls started", d, i, snap[i], e))
				}
			}
			if d+1 < hi {
				pendingSeen.Add(1)
			}
			runtime.Gosched()
		}
	}()
	// waiters
	var waitersBlocked atomic.Int64
	var waiterWG sync.WaitGroup
	startWaiter := func(idx uint64) {
		waiterWG.Add(1)
		waitersBlocked.Add(1)
		go func() {
			defer waiterWG.Done()
			ctx, cancel := context.WithTimeout(context.Background(), 20*time.Second)
			defer cancel()
			err := w.WaitForMark(ctx, idx)
			waitersBlocked.Add(-1)
			if err != nil {
				bad.CompareAndSwap(nil, fmt.Sprintf("a waiter for index %d was still blocked after 20s although every index had been done for long (lost wake-up); DoneUntil=%d", idx, w.DoneUntil()))
				return
			}
			if d := w.DoneUntil(); d < idx {
				bad.CompareAndSwap(nil, fmt.Sprintf("WaitForMark(%d) returned while DoneUntil()=%d", idx, d))
			}
		}()
	}
	seeds := make([]int64, nWorkers)
	for i := range seeds {
		seeds[i] = r.Int63()
	}
	for g := 0; g < nWorkers; g++ {
		wg.Add(1)
		go func(g int) {
			defer wg.Done()
			rr := c.Rand(fmt.Sprintf("c34-wm-%d-%d-%d", round, g, seeds[g]))
			for n := 0; n < nIdx; n++ {
				mu.Lock()
				idx := next.Add(1) - 1
				if idx >= maxIdx-1 {
					mu.Unlock()
					return
				}
				w.Begin(idx)
				begun[idx].Add(1)
				twice := dup && rr.Intn(3) == 0
				if twice {
					// two overlapping holders of the same index (transactions with equal read
					// timestamps); re-beginning an index after it was reported done is outside the claim
					w.Begin(idx)
					begun[idx].Add(1)
				}
				mu.Unlock()
				if twice {
					wg.Add(1)
					d := time.Duration(rr.Intn(400)) * time.Microsecond
					go func(i uint64) {
						defer wg.Done()
						time.Sleep(d)
						doneCalled[i].Add(1)
						w.Done(i)
					}(idx)
				}
				if rr.Intn(5) == 0 {
					startWaiter(idx)
				}
				switch rr.Intn(4) {
				case 0:
					runtime.Gosched()
				case 1:
					time.Sleep(time.Duration(rr.Intn(200)) * time.Microsecond)
				}
				doneCalled[idx].Add(1)
				w.Done(idx)
			}
		}(g)
	}
	wg.Wait()
	waiterWG.Wait()
	close(stopObs)
	obsWG.Wait()
	final := next.Load() - 1
	deadline := time.Now().Add(5 * time.Second)
	for w.DoneUntil() < final && time.Now().Before(deadline) {
		time.Sleep(time.Millisecond)
	}
	if d := w.DoneUntil(); d != final {
		bad.CompareAndSwap(nil, fmt.Sprintf("all indices up to %d were begun and done but DoneUntil() stays at %d", final, d))
	}
	c.Eval(1)
	c.Count("wm.observations", observations.Load())
	c.Count("wm.observations_with_pending_indices", pendingSeen.Load())
	c.Count("wm.indices", int64(final))
	if b := bad.Load(); b != nil {
		c.Violation("C34|watermark|"+firstWords(b.(string)), b.(string), map[string]any{"workers": nWorkers, "indices": final, "duplicates": dup})
	}
	if pendingSeen.Load() > 0 {
		c.Distinct(fmt.Sprintf("watermark|workers=%d|dup=%v", nWorkers, dup))
	}
}

func firstWords(s string) string {
	switch {
	case len(s) > 10 && s[:10] == "DoneUntil(":
		return "done-while-pending"
	case len(s) > 8 && s[:8] == "a waiter":
		return "lost-wakeup"
	case len(s) > 11 && s[:11] == "WaitForMark":
		return "early-wakeup"
	}
	return "stuck"
}

// C34 the oracle and watermarks never expose unfinished commits or strand readers.
func C34(c *core.Ctx) {
	c.Rule("(i) y.WaterMark under badger's usage contract (Begin serialised in increasing order, an index may be held twice at once, Done in any order) with 4-16 goroutines, shadow counters " +
		"updated after Begin returns / before Done is called, and an observer that snapshots them around DoneUntil(): an index <= DoneUntil with more returned Begins than started " +
		"Dones is a violation; waiters must return (and only once DoneUntil >= index), a waiter still blocked 20 s after everything was done is a lost wake-up; (ii) recorded " +
		"histories of many small commits and transaction starts with delays at commit.afterTs / write.afterVlog / commit.beforeDone / readts.beforeWait, monitored through hooks: " +
		"no read timestamp may be granted while a commit at or below it is in flight (in-flight set maintained inside the oracle's lock), and the read oracle confirms that " +
		"every transaction sees all commits <= its read timestamp; (iii) race-detector reports in y/watermark.go or the oracle are violations; distinct = configurations in which the " +
		"monitored window was actually observed open")
	for i := 0; i < c.Pick(40, 400); i++ {
		watermarkRound(c, i, 4+i%13, c.Pick(150, 400), i%2 == 1)
	}
	// (ii)
	work := c.WorkDir()
	defer os.RemoveAll(work)
	idx := 0
	delays := sched.Config{Prob: 0.2, MaxSleep: 2 * time.Millisecond, ProbBy: map[string]float64{"commit.afterTs": 0.3, "commit.beforeDone": 0.3, "write.afterVlog": 0.3,
		"write.beforeAck": 0.2, "readts.beforeWait": 0.3, "commit.afterSend": 0.2}}
	for round := 0; round < c.Pick(1, 6); round++ {
		for _, v := range []int{0, 7, 4, 1} {
			idx++
			hr := HistRun{Variant: v, Sched: delays, NKeys: 12,
				Mix: func(keys [][]byte) hist.Mix {
					m := hist.DefaultMix(keys)
					m.Clients = 16
					m.TxnsPerClient = c.Pick(100, 250)
					m.ROFrac = 0.5
					m.IterFrac = 0.05
					m.MaxReads = 2
					m.MaxWrites = 2
					m.AsyncFrac = 0.3
					m.HeldFrac = 0
					m.ValSizes = []int{24, 100}
					return m
				}}
			res, err := runHistory(c, work, idx, hr)
			if err != nil {
				c.Inconclusive(err.Error())
				continue
			}
			c.Eval(1)
			for _, b := range res.S.OracleViolations() {
				c.Violation("C34|oracle|readts-granted-while-commit-in-flight", b, res.Name)
			}
			reportProbs(c, "C34|oracle", res.Probs, res.Name)
			hist.CheckReads(c, "C34|oracle", res.H, res.M)
			hist.CheckCommitOrder(c, "C34|oracle", res.H)
			addSchedCoverage(c, res.S)
			if res.S.ReadsOverlappingCommit.Load() > 0 {
				c.Distinct("oracle|" + res.Name)
			}
			if idx <= 2 {
				c.Sample(map[string]any{"options": res.Name, "readts_grants": res.S.Grants.Load(), "grants_while_commit_in_flight": res.S.ReadsOverlappingCommit.Load()})
			}
			_ = res.DB.Close()
			_ = os.RemoveAll(res.Dir)
		}
	}
	if c.Counter("wm.observations_with_pending_indices") == 0 || c.Counter("readts_grants_while_commit_in_flight") == 0 {
		c.Inconclusive("the monitored windows were never observed open")
	}
	c.CheckRaces([]string{"/y.(*WaterMark)", "badger/v4.(*oracle)"}, "C34|race", "data race reported in the watermark or oracle code")
	c.Assume("bounded: 4-16 goroutines, hundreds of indices per round; interleavings come from contention and injected yields/sleeps")
}
