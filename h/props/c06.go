package props

import (
	"fmt"
	"os"

	badger "github.com/dgraph-io/badger/v4"

	"verif/h/core"
	"verif/h/hist"
)

// C06 value and metadata round trip across the (static or dynamic) value threshold.
func C06(c *core.Ctx) {
	c.Rule("histories whose value sizes form a ladder around every threshold in play (0,1,threshold-1/=/+1, block size +-1, 4 KiB, 20 KiB, 64 KiB) with all " +
		"meta/expiry/discard combinations, static thresholds 32/64/1024 and VLogPercentile 0.5/0.99 (threshold moves while entries are in flight); values are " +
		"read through Get->Value, Get->ValueCopy, iterator with prefetch and without, during the run, after it, and after close/re-open; full byte comparison " +
		"by digest against the PRF-expanded token; distinct = (option variant, size, read path) triples checked")
	work := c.WorkDir()
	defer os.RemoveAll(work)
	idx := 0
	for round := 0; round < c.Pick(1, 5); round++ {
		for _, v := range []int{0, 1, 3, 6, 7, 9} {
			idx++
			var thresholds = map[int64]bool{}
			hr := HistRun{Variant: v, NKeys: 20, GC: false,
				Mix: func(keys [][]byte) hist.Mix {
					m := hist.DefaultMix(keys)
					m.Clients = 4
					m.TxnsPerClient = c.Pick(400, 800)
					m.ROFrac = 0.3
					m.IterFrac = 0.3
					m.MetaFrac = 0.6
					m.ExpireFrac = 0.3
					m.DiscardFrac = 0.2
					m.DeleteFrac = 0.05
					m.ValSizes = []int{0, 1, 5, 31, 32, 33, 63, 64, 65, 1000, 1023, 1024, 1025, 4095, 4096, 4097, 20000, 65536}
					if v == 4 {
						m.ValSizes = []int{0, 1, 31, 32, 33, 1024, 20000}
					}
					return m
				},
				AfterRun: func(db *badger.DB) { thresholds[db.VerifValueThreshold()] = true }}
			res, err := runHistory(c, work, idx, hr)
			if err != nil {
				c.Inconclusive(err.Error())
				continue
			}
			c.Eval(1)
			reportProbs(c, "C06", res.Probs, res.Name)
			st := hist.CheckReads(c, "C06|live", res.H, res.M)
			addReadStats(c, st)
			addSchedCoverage(c, res.S)
			thresholds[res.DB.VerifValueThreshold()] = true
			st2 := hist.CheckState(c, "C06|after-run", res.DB, res.M, hist.StateOpts{})
			addReadStats(c, st2)
			if !res.Opt.InMemory {
				if err := res.DB.Close(); err != nil {
					c.Violation("C06|close", err.Error(), res.Name)
				}
				db, err := badger.Open(res.Opt)
				if err != nil {
					c.Violation("C06|reopen", err.Error(), res.Name)
					continue
				}
				res.DB = db
				st3 := hist.CheckState(c, "C06|after-reopen", res.DB, res.M, hist.StateOpts{})
				addReadStats(c, st3)
			}
			for th := range thresholds {
				if res.Opt.VLogPercentile > 0 && th != res.Opt.ValueThreshold {
					c.Count("threshold.dynamic_changes_observed", 1)
					c.Set(fmt.Sprintf("threshold_seen_%s", res.Name), th)
				}
			}
			for _, t := range res.H.Txns {
				for _, rr := range t.Reads {
					if rr.Kind == "get" && rr.Found {
						c.Distinct(fmt.Sprintf("%s|len%d|%s", res.Name, rr.Got.ValLen, rr.Got.Path))
					}
					for _, it := range rr.Items {
						c.Distinct(fmt.Sprintf("%s|len%d|iter-%s-pf%v", res.Name, it.ValLen, it.Path, rr.Prefetch >= 0))
					}
				}
			}
			if idx <= 2 {
				c.Sample(histSample(res))
			}
			_ = res.DB.Close()
			_ = os.RemoveAll(res.Dir)
		}
	}
	if c.Counter("threshold.dynamic_changes_observed") == 0 {
		c.Inconclusive("the dynamic value threshold never moved")
	}
	c.Assume("value-log GC is excluded here (its effects are the subject of C15); values up to 64 KiB")
}
