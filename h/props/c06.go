package props

import (
	"fmt"
	"os"
	"path/filepath"
	"time"

	badger "github.com/dgraph-io/badger/v4"

	"verif/h/core"
	"verif/h/drv"
	"verif/h/gen"
	"verif/h/hist"
	"verif/h/model"
)

func genExpand(tok string, n int) []byte { return gen.Expand(tok, n) }

// C06 value and metadata round trip across the (static or dynamic) value threshold.
func C06(c *core.Ctx) {
	c.Rule("histories whose value sizes form a ladder around every threshold in play (0,1,threshold-1/=/+1, block size +-1, 4 KiB, 20 KiB, 64 KiB) with all " +
		"meta/expiry/discard combinations, static thresholds 32/64/1024 and VLogPercentile 0.5/0.99 (threshold moves while entries are in flight); values are " +
		"6% of the writers keep their writes pending while ~80 other commits are acknowledged; read through Get->Value, Get->ValueCopy, iterator with prefetch and without, during the run, after it, and after close/re-open; full byte comparison " +
		"by digest against the PRF-expanded token; plus a large-value family (values from 1 MiB-1 to 5 MiB next to small ones, ValueLogFileSize 8-16 MiB) read back " +
		"after the run, after clean close/re-open (twice) and after a value-log GC pass; a through-GC family (driver: entries with user meta and far-future expiry share value-log files with overwritten junk until GC rewrites the files - inconclusive if it never does; value, meta and expiry compared after the rewrite, after further compactions and after re-open); and a pinned-threshold family (VLogPercentile 0.5/0.9/0.99: a transaction or write " +
		"batch sets a size ladder, hundreds of other commits move the threshold up or down, then it commits; all values and metas read back after commit and after re-open); distinct = (option variant, size, read path) triples checked")
	work := c.WorkDir()
	defer os.RemoveAll(work)
	idx := 0
	for round := 0; round < c.Pick(1, 5); round++ {
		for _, v := range []int{0, 1, 3, 6, 7, 9} {
			idx++
			var thresholds = map[int64]bool{}
			hr := HistRun{Variant: v, NKeys: 20, GC: false,
				Mix: func(keys [][]byte) hist.Mix {
					m := hist.DefaultMix(keys)
					m.Clients = 4
					m.TxnsPerClient = c.Pick(400, 800)
					m.ROFrac = 0.3
					m.IterFrac = 0.3
					m.MetaFrac = 0.6
					m.ExpireFrac = 0.3
					m.DiscardFrac = 0.2
					m.DeleteFrac = 0.05
					// some transactions hold their pending writes while ~80 other commits go by: with
					// VLogPercentile the threshold their entries were classified under moves meanwhile
					m.LateCommitFrac = 0.06
					m.LongRWCommits = 80
					m.BlindFrac = 0.8
					if idx%2 == 0 {
						// drifting size distribution: small values first, then mostly large ones, so that
						// a percentile threshold keeps rising while late committers hold mid-sized values
						m.ValSizes = []int{0, 1, 5, 31, 32, 33, 63, 64, 65, 100, 200, 300}
						m.ValSizesLate = []int{65, 300, 600, 1000, 1023, 1024, 1025, 4095, 4096, 4097, 20000, 65536}
					}
					m.ValSizes = []int{0, 1, 5, 31, 32, 33, 63, 64, 65, 1000, 1023, 1024, 1025, 4095, 4096, 4097, 20000, 65536}
					if v == 4 {
						m.ValSizes = []int{0, 1, 31, 32, 33, 1024, 20000}
					}
					return m
				},
				AfterRun: func(db *badger.DB) { thresholds[db.VerifValueThreshold()] = true }}
			res, err := runHistory(c, work, idx, hr)
			if err != nil {
				c.Inconclusive(err.Error())
				continue
			}
			c.Eval(1)
			reportProbs(c, "C06", res.Probs, res.Name)
			st := hist.CheckReads(c, "C06|live", res.H, res.M)
			addReadStats(c, st)
			addSchedCoverage(c, res.S)
			thresholds[res.DB.VerifValueThreshold()] = true
			st2 := hist.CheckState(c, "C06|after-run", res.DB, res.M, hist.StateOpts{})
			addReadStats(c, st2)
			if !res.Opt.InMemory {
				if err := res.DB.Close(); err != nil {
					c.Violation("C06|close", err.Error(), res.Name)
				}
				db, err := badger.Open(res.Opt)
				if err != nil {
					c.Violation("C06|reopen", err.Error(), res.Name)
					continue
				}
				res.DB = db
				st3 := hist.CheckState(c, "C06|after-reopen", res.DB, res.M, hist.StateOpts{})
				addReadStats(c, st3)
			}
			for th := range thresholds {
				if res.Opt.VLogPercentile > 0 && th != res.Opt.ValueThreshold {
					c.Count("threshold.dynamic_changes_observed", 1)
					c.Set(fmt.Sprintf("threshold_seen_%s", res.Name), th)
				}
			}
			for _, t := range res.H.Txns {
				for _, rr := range t.Reads {
					if rr.Kind == "get" && rr.Found {
						c.Distinct(fmt.Sprintf("%s|len%d|%s", res.Name, rr.Got.ValLen, rr.Got.Path))
					}
					for _, it := range rr.Items {
						c.Distinct(fmt.Sprintf("%s|len%d|iter-%s-pf%v", res.Name, it.ValLen, it.Path, rr.Prefetch >= 0))
					}
				}
			}
			if idx <= 2 {
				c.Sample(histSample(res))
			}
			_ = res.DB.Close()
			_ = os.RemoveAll(res.Dir)
		}
	}
	for i := 0; i < c.Pick(2, 8); i++ {
		c06Large(c, work, i)
		c06ThroughGC(c, work, i)
	}
	if c.Counter("gc.rewrites_with_live_attributed_entries") == 0 {
		c.Inconclusive("through-gc: GC never rewrote a file holding live entries with attributes")
	}
	for i := 0; i < c.Pick(4, 24); i++ {
		c06PinnedThreshold(c, work, i)
	}
	if c.Counter("threshold.dynamic_changes_observed") == 0 {
		c.Inconclusive("the dynamic value threshold never moved")
	}
	c.Assume("value-log GC is excluded from the concurrent histories (its effects are the subject of C15); values up to 64 KiB there, up to 5 MiB in the sequential large-value family")
}

// c06Large: values around and above 1 MiB (the largest permitted ValueThreshold) mixed with small
// ones, written sequentially; every value must read back identically after the run, after each of
// two clean close/re-open cycles (the newest value-log file is replayed by Open) and after GC.

// c06ThroughGC: entries with value-log values, user meta and (half of them) an expiry far in the
// future share their value-log files with junk that is overwritten until GC picks the files; after
// the rewrite every attribute must read back as written, through Get and through an iterator, also
// after further compactions and a re-open.
func c06ThroughGC(c *core.Ctx, work string, idx int) {
	r := c.Rand(fmt.Sprintf("c06-gc-%d", idx))
	dir := filepath.Join(work, fmt.Sprintf("gc%d", idx))
	_ = os.MkdirAll(dir, 0o755)
	defer os.RemoveAll(dir)
	o, oname := drvOptions(dir, []int{0, 2, 5}[idx%3])
	o.MemTableSize = 1 << 20
	o.ValueThreshold = 32
	o.ValueLogMaxEntries = 24
	o.MaxLevels = 3
	o.NumLevelZeroTables = 1
	db, err := drv.Open(o, false)
	if err != nil {
		c.Inconclusive("open: " + err.Error())
		return
	}
	w := &drv.World{C: c, Sig: "C06|through-gc", DB: db, Opt: o, M: model.New(), R: r}
	defer func() { _ = w.DB.Close() }()
	type rec struct {
		val  []byte
		meta byte
		exp  uint64
	}
	farFuture := uint64(time.Now().Unix()) + 400000000
	want := map[string]rec{}
	nKeep := 6 + r.Intn(10)
	for i := 0; i < nKeep; i++ {
		k := fmt.Sprintf("keep%02d", i)
		rc := rec{val: genExpand(fmt.Sprintf("G%d.%d", idx, i), 40+r.Intn(400)), meta: byte(1 + i)}
		if i%2 == 0 {
			rc.exp = farFuture + uint64(i)
		}
		e := badger.NewEntry([]byte(k), rc.val).WithMeta(rc.meta)
		e.ExpiresAt = rc.exp
		if err := w.DB.Update(func(txn *badger.Txn) error { return txn.SetEntry(e) }); err != nil {
			c.Inconclusive("write: " + err.Error())
			return
		}
		want[k] = rc
		// junk next to it in the same value-log file
		_, _ = w.Commit([]drv.WriteSpec{{Key: []byte(fmt.Sprintf("junk%02d", i%18)), Len: 2000}})
	}
	check := func(stage string) bool {
		ok := true
		err := w.DB.View(func(txn *badger.Txn) error {
			cmp := func(path, k string, it *badger.Item) {
				rc := want[k]
				v, err := it.ValueCopy(nil)
				c.Count("gc.attributes_checked", 1)
				if err != nil || string(v) != string(rc.val) || it.UserMeta() != rc.meta || it.ExpiresAt() != rc.exp {
					ok = false
					c.Violation("C06|through-gc|"+stage+"|"+path, fmt.Sprintf("key %s: %d bytes (err=%v, equal=%v), user meta %d, expiry %d; written: %d bytes, user meta %d, expiry %d", k, len(v), err, string(v) == string(rc.val), it.UserMeta(), it.ExpiresAt(), len(rc.val), rc.meta, rc.exp),
						map[string]any{"options": oname, "steps": w.Steps})
				}
			}
			for k := range want {
				it, err := txn.Get([]byte(k))
				if err != nil {
					return fmt.Errorf("Get(%s): %w", k, err)
				}
				cmp("get", k, it)
			}
			io := badger.DefaultIteratorOptions
			io.Prefix = []byte("keep")
			itr := txn.NewIterator(io)
			defer itr.Close()
			n := 0
			for itr.Rewind(); itr.Valid(); itr.Next() {
				n++
				cmp("iterator", string(itr.Item().KeyCopy(nil)), itr.Item())
			}
			if n != len(want) {
				return fmt.Errorf("iterator yields %d of %d keys", n, len(want))
			}
			return nil
		})
		if err != nil {
			ok = false
			c.Violation("C06|through-gc|"+stage+"|read-error", err.Error(), map[string]any{"options": oname, "steps": w.Steps})
		}
		return ok
	}
	// generations of junk: the oldest ones are discarded by compaction, which gives GC its statistics
	for round := 0; round < 2; round++ {
		for i := 0; i < 18; i++ {
			_, _ = w.Commit([]drv.WriteSpec{{Key: []byte(fmt.Sprintf("junk%02d", i)), Len: 2000}})
		}
		w.Flush()
		w.AdvanceWatermark()
		w.CompactForce(0, 1)
	}
	if !check("before-gc") {
		return
	}
	rewrites := 0
	for i := 0; i < 4; i++ {
		if w.GC(0.001) {
			rewrites++
		}
	}
	if rewrites == 0 {
		// this layout gave GC nothing to do; the family as a whole is inconclusive only if no case did
		c.Count("gc.cases_in_which_gc_rewrote_nothing", 1)
		return
	}
	c.Eval(1)
	c.Count("gc.rewrites_with_live_attributed_entries", int64(rewrites))
	if !check("after-gc") {
		return
	}
	w.AdvanceWatermark()
	w.Flush()
	for l := 0; l < o.MaxLevels-1; l++ {
		w.CompactForce(l, 1)
	}
	if !check("after-gc-and-compaction") {
		return
	}
	if err := w.DB.Close(); err != nil {
		c.Violation("C06|through-gc|close", err.Error(), nil)
		return
	}
	if w.DB, err = drv.Open(o, false); err != nil {
		c.Violation("C06|through-gc|reopen", err.Error(), nil)
		w.DB, _ = drv.Open(o, false)
		return
	}
	check("after-reopen")
	c.Distinct(fmt.Sprintf("through-gc|%s", oname))
}

func c06Large(c *core.Ctx, work string, idx int) {
	r := c.Rand(fmt.Sprintf("c06-large-%d", idx))
	dir := fmt.Sprintf("%s/large%d", work, idx)
	_ = os.MkdirAll(dir, 0o755)
	defer os.RemoveAll(dir)
	ov := hist.SmallOptions(dir, []int{0, 3, 1}[idx%3], r)
	ov.Opt.ValueLogFileSize = int64(8+8*(idx%2)) << 20
	ov.Opt.ValueLogMaxEntries = 1000
	ov.Opt.MemTableSize = 1 << 20
	db, err := badger.Open(ov.Opt)
	if err != nil {
		c.Inconclusive("open: " + err.Error())
		return
	}
	sizes := []int{100, 1<<20 - 1, 1 << 20, 1<<20 + 1, 40, 2 << 20, 3000, 3<<20 + 17, 0, 5 << 20, 64}
	want := map[string][]byte{}
	type attr struct {
		meta byte
		exp  uint64
	}
	wantAttr := map[string]attr{}
	farFuture := uint64(time.Now().Unix()) + 400000000 // > 12 years ahead: never reached by a run
	n := 0
	write := func(k string, size int) bool {
		n++
		v := genExpand(fmt.Sprintf("L%d.%d", idx, n), size)
		// user meta on every entry, an expiry far in the future on every second one: both must come
		// back unchanged wherever the value is stored and after GC moved it
		a := attr{meta: byte(n)}
		if n%2 == 0 {
			a.exp = farFuture + uint64(n)
		}
		e := badger.NewEntry([]byte(k), v).WithMeta(a.meta)
		e.ExpiresAt = a.exp
		wantAttr[k] = a
		if err := db.Update(func(txn *badger.Txn) error { return txn.SetEntry(e) }); err != nil {
			c.Violation("C06|large|commit-error", fmt.Sprintf("Set of a %d-byte value: %v", size, err), ov.Name)
			return false
		}
		want[k] = v
		return true
	}
	check := func(stage string) {
		for k, v := range want {
			err := db.View(func(txn *badger.Txn) error {
				it, err := txn.Get([]byte(k))
				if err != nil {
					return err
				}
				got, err := it.ValueCopy(nil)
				if err != nil {
					return err
				}
				c.Count("large.values_checked", 1)
				if a := wantAttr[k]; it.UserMeta() != a.meta || it.ExpiresAt() != a.exp {
					c.Violation("C06|large|"+stage+"|attributes-differ", fmt.Sprintf("key %s (%d bytes): user meta %d expiry %d, written with user meta %d expiry %d", k, len(v), it.UserMeta(), it.ExpiresAt(), a.meta, a.exp), map[string]any{"options": ov.Name, "stage": stage})
				}
				if string(got) != string(v) {
					c.Violation("C06|large|"+stage+"|value-differs", fmt.Sprintf("key %s: wrote %d bytes, read %d bytes (equal prefix %d)", k, len(v), len(got), commonPrefix(got, v)), map[string]any{"options": ov.Name, "stage": stage})
				}
				return nil
			})
			if err != nil {
				c.Violation("C06|large|"+stage+"|read-error", fmt.Sprintf("key %s (%d bytes): %v", k, len(v), err), map[string]any{"options": ov.Name, "stage": stage})
			}
		}
		c.Distinct(fmt.Sprintf("large|%s|%s", ov.Name, stage))
		// the same through prefetching iterators that read only some of the values they pass (the
		// items skipped are recycled while their prefetch may still be running)
		for pass := 0; pass < 3; pass++ {
			pf, stride, rev := []int{1, 2, 3, 8}[r.Intn(4)], 2+r.Intn(4), r.Intn(3) == 0
			_ = db.View(func(txn *badger.Txn) error {
				io := badger.DefaultIteratorOptions
				io.PrefetchSize, io.Reverse = pf, rev
				it := txn.NewIterator(io)
				defer it.Close()
				seen, pos := 0, r.Intn(stride)
				for it.Rewind(); it.Valid(); it.Next() {
					pos++
					seen++
					if pos%stride != 0 {
						continue
					}
					k := string(it.Item().KeyCopy(nil))
					v, ok := want[k]
					if !ok {
						c.Violation("C06|large|"+stage+"|iter-unknown-key", fmt.Sprintf("iterator yields key %q that was never written", k), ov.Name)
						continue
					}
					got, err := it.Item().ValueCopy(nil)
					c.Count("large.values_checked_via_partial_iteration", 1)
					if err != nil {
						c.Violation("C06|large|"+stage+"|iter-read-error", fmt.Sprintf("key %s (%d bytes): %v", k, len(v), err), ov.Name)
					} else if string(got) != string(v) {
						c.Violation("C06|large|"+stage+"|iter-value-differs", fmt.Sprintf("key %s through an iterator (prefetch %d, every %d-th value read, reverse=%v): wrote %d bytes, read %d bytes (equal prefix %d)", k, pf, stride, rev, len(v), len(got), commonPrefix(got, v)), map[string]any{"options": ov.Name, "stage": stage})
					}
				}
				if seen != len(want) {
					c.Violation("C06|large|"+stage+"|iter-count", fmt.Sprintf("iterator yields %d keys, %d are live", seen, len(want)), ov.Name)
				}
				return nil
			})
		}
	}
	for i, sz := range sizes {
		if !write(fmt.Sprintf("big%02d", i), sz) {
			_ = db.Close()
			return
		}
	}
	c.Eval(1)
	check("after-run")
	for cycle := 1; cycle <= 2; cycle++ {
		if err := db.Close(); err != nil {
			c.Violation("C06|large|close", err.Error(), ov.Name)
			return
		}
		if db, err = badger.Open(ov.Opt); err != nil {
			c.Violation("C06|large|reopen", err.Error(), ov.Name)
			return
		}
		check(fmt.Sprintf("after-reopen-%d", cycle))
		// more data after the big values, so that they are followed by later records in their file
		for i := 0; i < 3; i++ {
			write(fmt.Sprintf("tail%d-%d", cycle, i), []int{50, 1<<20 + 5, 700}[i])
		}
	}
	// overwrite some big values (garbage), flatten (discard statistics), GC, read everything again
	for i := 0; i < 6; i++ {
		write(fmt.Sprintf("big%02d", i), sizes[i])
	}
	_ = db.Flatten(2)
	for i := 0; i < 3; i++ {
		if err := db.RunValueLogGC(0.01); err == nil {
			c.Count("large.gc_rewrites", 1)
		}
	}
	check("after-gc")
	if err := db.Close(); err == nil {
		if db, err = badger.Open(ov.Opt); err == nil {
			check("after-gc-reopen")
			_ = db.Close()
		} else {
			c.Violation("C06|large|reopen", err.Error(), ov.Name)
		}
	}
}

func commonPrefix(a, b []byte) int {
	n := 0
	for n < len(a) && n < len(b) && a[n] == b[n] {
		n++
	}
	return n
}

// c06PinnedThreshold: with VLogPercentile the value threshold moves while a transaction (or a write
// batch) holds pending writes that were classified under the old threshold; once it commits every
// value must still read back byte for byte, whichever way the threshold moved in between.
func c06PinnedThreshold(c *core.Ctx, work string, idx int) {
	r := c.Rand(fmt.Sprintf("c06-pinned-%d", idx))
	dir := fmt.Sprintf("%s/pinned%d", work, idx)
	_ = os.MkdirAll(dir, 0o755)
	defer os.RemoveAll(dir)
	ov := hist.SmallOptions(dir, 0, r)
	ov.Opt.ValueThreshold = 32
	ov.Opt.VLogPercentile = []float64{0.5, 0.99, 0.9}[idx%3]
	ov.Opt.MemTableSize = 1 << 20
	ov.Opt.ValueLogFileSize = 8 << 20
	rising := idx%4 != 3
	db, err := badger.Open(ov.Opt)
	if err != nil {
		c.Inconclusive("open: " + err.Error())
		return
	}
	defer func() { _ = db.Close() }()
	filler := func(n, size int, tag string) {
		for i := 0; i < n; i++ {
			_ = db.Update(func(txn *badger.Txn) error {
				return txn.Set([]byte(fmt.Sprintf("fill-%s-%04d", tag, i)), gen.Expand(fmt.Sprintf("f%s%d", tag, i), size))
			})
		}
	}
	if !rising {
		filler(200, 6000, "pre") // start with a high threshold, let it fall
	}
	t0 := db.VerifValueThreshold()
	sizes := []int{0, 1, 31, 32, 33, 64, 100, 300, 600, 1000, 1500, 3000, 5000, 7000}
	want := map[string][]byte{}
	metas := map[string]byte{}
	useBatch := idx%2 == 1
	var txn *badger.Txn
	var wb *badger.WriteBatch
	if useBatch {
		wb = db.NewWriteBatch()
	} else {
		txn = db.NewTransaction(true)
	}
	for i, sz := range sizes {
		k := fmt.Sprintf("pinned-%05d", sz)
		v := gen.Expand(fmt.Sprintf("P%d.%d", idx, i), sz)
		e := badger.NewEntry([]byte(k), v).WithMeta(byte(1 + i))
		var err error
		if useBatch {
			err = wb.SetEntry(e)
		} else {
			err = txn.SetEntry(e)
		}
		if err != nil {
			c.Violation("C06|pinned|set-error", err.Error(), ov.Name)
			return
		}
		want[k], metas[k] = v, byte(1+i)
	}
	if rising {
		filler(300, 8000, "mid")
	} else {
		filler(600, 10, "mid")
	}
	deadline := time.Now().Add(3 * time.Second)
	for db.VerifValueThreshold() == t0 && time.Now().Before(deadline) {
		time.Sleep(5 * time.Millisecond)
	}
	t1 := db.VerifValueThreshold()
	if useBatch {
		err = wb.Flush()
	} else {
		err = txn.Commit()
	}
	if err != nil {
		c.Violation("C06|pinned|commit-error", fmt.Sprintf("commit of writes that were all accepted failed after the value threshold moved from %d to %d: %v", t0, t1, err), ov.Name)
		return
	}
	c.Eval(1)
	if t1 != t0 {
		c.Count("pinned.threshold_moved_while_writes_pending", 1)
		c.Distinct(fmt.Sprintf("pinned|percentile=%v|rising=%v|batch=%v", ov.Opt.VLogPercentile, t1 > t0, useBatch))
	}
	info := map[string]any{"options": ov.Name, "percentile": ov.Opt.VLogPercentile, "threshold_at_set": t0, "threshold_at_commit": t1, "write_batch": useBatch}
	check := func(stage string) {
		_ = db.View(func(rt *badger.Txn) error {
			for k, v := range want {
				it, err := rt.Get([]byte(k))
				if err != nil {
					c.Violation("C06|pinned|"+stage+"|get-error", fmt.Sprintf("key %s (%d bytes): %v", k, len(v), err), info)
					continue
				}
				got, err := it.ValueCopy(nil)
				c.Count("pinned.values_checked", 1)
				if err != nil || string(got) != string(v) || it.UserMeta() != metas[k] {
					c.Violation("C06|pinned|"+stage+"|value-differs", fmt.Sprintf("key %s: wrote %d bytes meta %d, read %d bytes meta %d err=%v (threshold %d at Set, %d at Commit)", k, len(v), metas[k], len(got), it.UserMeta(), err, t0, t1), info)
				}
			}
			io := badger.DefaultIteratorOptions
			io.Prefix = []byte("pinned-")
			itr := rt.NewIterator(io)
			defer itr.Close()
			n := 0
			for itr.Rewind(); itr.Valid(); itr.Next() {
				n++
				k := string(itr.Item().Key())
				got, err := itr.Item().ValueCopy(nil)
				if err != nil || string(got) != string(want[k]) {
					c.Violation("C06|pinned|"+stage+"|iterator-value-differs", fmt.Sprintf("key %s: wrote %d bytes, iterator returned %d bytes err=%v", k, len(want[k]), len(got), err), info)
				}
			}
			if n != len(want) {
				c.Violation("C06|pinned|"+stage+"|iterator-count", fmt.Sprintf("iterator returned %d of %d keys", n, len(want)), info)
			}
			return nil
		})
	}
	check("after-commit")
	if err := db.Close(); err != nil {
		c.Violation("C06|pinned|close", err.Error(), info)
		return
	}
	if db, err = badger.Open(ov.Opt); err != nil {
		c.Violation("C06|pinned|reopen", err.Error(), info)
		db, _ = badger.Open(ov.Opt)
		return
	}
	check("after-reopen")
}
