package props

import (
	"bytes"
	"fmt"
	"os"
	"path/filepath"
	"sort"
	"strings"

	badger "github.com/dgraph-io/badger/v4"
	"github.com/dgraph-io/badger/v4/table"
	"github.com/dgraph-io/badger/v4/y"

	"verif/h/core"
	"verif/h/drv"
)

// checkStructure validates the LSM tree through public API only. dir == "" skips the file checks.
func checkStructure(c *core.Ctx, sig string, db *badger.DB, opt badger.Options, quiescent bool, wit func() map[string]any) {
	tables := db.Tables()
	byLevel := map[int][]badger.TableInfo{}
	ids := map[uint64]int{}
	for _, t := range tables {
		byLevel[t.Level] = append(byLevel[t.Level], t)
		ids[t.ID] = t.Level
	}
	for lvl, ts := range byLevel {
		if lvl == 0 {
			continue
		}
		sort.Slice(ts, func(i, j int) bool { return y.CompareKeys(ts[i].Left, ts[j].Left) < 0 })
		for i := 0; i < len(ts); i++ {
			c.Count("structure.tables_checked", 1)
			if y.CompareKeys(ts[i].Left, ts[i].Right) > 0 {
				c.Violation(sig+"|table-range-inverted", fmt.Sprintf("L%d table %d has smallest > biggest", lvl, ts[i].ID), wit())
			}
			if i+1 < len(ts) {
				c.Count("structure.adjacent_pairs_checked", 1)
				if y.CompareKeys(ts[i].Right, ts[i+1].Left) >= 0 {
					c.Violation(sig+"|overlap", fmt.Sprintf("L%d tables %d and %d overlap: %x >= %x", lvl, ts[i].ID, ts[i+1].ID, ts[i].Right, ts[i+1].Left), wit())
				} else if bytes.Equal(y.ParseKey(ts[i].Right), y.ParseKey(ts[i+1].Left)) {
					c.Violation(sig+"|key-split-across-tables", fmt.Sprintf("L%d: versions of key %x are split across tables %d and %d", lvl, y.ParseKey(ts[i].Right), ts[i].ID, ts[i+1].ID), wit())
				}
			}
		}
	}
	if err := db.VerifyChecksum(); err != nil {
		c.Violation(sig+"|checksum", "VerifyChecksum: "+err.Error(), wit())
	}
	if opt.InMemory || !quiescent {
		return
	}
	// files on disk == MANIFEST == Tables()
	onDisk := map[uint64]bool{}
	ents, _ := os.ReadDir(opt.Dir)
	for _, e := range ents {
		if strings.HasSuffix(e.Name(), ".sst") {
			if id, ok := table.ParseFileID(e.Name()); ok {
				onDisk[id] = true
			}
		}
	}
	fp, err := os.Open(filepath.Join(opt.Dir, badger.ManifestFilename))
	if err != nil {
		c.Violation(sig+"|manifest-open", err.Error(), wit())
		return
	}
	mf, _, err := badger.ReplayManifestFile(fp, opt.ExternalMagicVersion, opt)
	fp.Close()
	if err != nil {
		c.Violation(sig+"|manifest-replay", err.Error(), wit())
		return
	}
	for id, lvl := range ids {
		tm, ok := mf.Tables[id]
		if !ok {
			c.Violation(sig+"|table-not-in-manifest", fmt.Sprintf("table %d (L%d) is live but not in the MANIFEST", id, lvl), wit())
		} else if int(tm.Level) != lvl {
			c.Violation(sig+"|level-mismatch", fmt.Sprintf("table %d is on L%d, MANIFEST says L%d", id, lvl, tm.Level), wit())
		}
		if !onDisk[id] {
			c.Violation(sig+"|table-file-missing", fmt.Sprintf("live table %d has no file", id), wit())
		}
	}
	for id := range mf.Tables {
		if _, ok := ids[id]; !ok {
			c.Violation(sig+"|manifest-extra", fmt.Sprintf("MANIFEST lists table %d which is not live", id), wit())
		}
	}
	for id := range onDisk {
		if _, ok := ids[id]; !ok {
			c.Violation(sig+"|orphan-file", fmt.Sprintf("file for table %d exists but the table is neither live nor in the MANIFEST check above", id), wit())
		}
	}
}

// C14 structural consistency of the LSM tree and MANIFEST.
func C14(c *core.Ctx) {
	c.Rule("driver histories (as C12, larger data so that levels hold several tables and sub-compaction splits occur) with a structure validator after every " +
		"flush/compaction and after close/re-open: every level >=1 sorted with ParseKey(right_i) < ParseKey(left_i+1) (disjoint and no user key split across tables), " +
		"*.sst files == MANIFEST (ReplayManifestFile) == DB.Tables() at quiescent points and after Open, Open never fails level validation, VerifyChecksum passes; " +
		"distinct = compaction shapes observed (level pair, top/bottom counts) and (options, mode) pairs")
	work := c.WorkDir()
	defer os.RemoveAll(work)
	// drop scripts on layouts with many small tables per level (multi-prefix DropPrefix rewrites groups
	// of tables on every level); the structure validator runs after every such drop and after re-open
	for j := 0; j < c.Pick(4, 30); j++ {
		c29SeqSig(c, work, 3*j+1, "C14")
	}
	r := c.Rand("c14")
	sr := &shapeRec{shapes: map[string]int{}}
	installShapeHook(sr)
	defer uninstallHooks()
	n := c.Pick(18, 150)
	for i := 0; i < n; i++ {
		managed := i%4 == 3
		var last *drv.World
		driverRunX(c, "C14", work, i, managed, r, c.Pick(420, 700), false,
			func(o *badger.Options) {
				o.BaseTableSize = 1 << 10
				o.BaseLevelSize = 4 << 10
				o.BlockSize = 256
			},
			func(w *drv.World, step string) {
				last = w
				if step == "end" {
					// close / re-open cycle
					w.CloseSnapshots()
					if err := w.DB.Close(); err != nil {
						c.Violation("C14|close", err.Error(), w.Witness())
						return
					}
					db, err := drv.Open(w.Opt, w.Managed)
					if err != nil {
						c.Violation("C14|reopen", "Open failed: "+err.Error(), w.Witness())
						// re-open without validation is impossible; leave a fresh DB so the deferred Close works
						_ = os.RemoveAll(w.Opt.Dir)
						_ = os.MkdirAll(w.Opt.Dir, 0o755)
						db, _ = drv.Open(w.Opt, w.Managed)
					}
					w.DB = db
					c.Count("structure.reopens", 1)
					checkStructure(c, "C14|after-reopen", w.DB, w.Opt, true, w.Witness)
					w.CheckInvariance("reopen")
					return
				}
				checkStructure(c, "C14|after:"+step, w.DB, w.Opt, true, w.Witness)
			})
		_ = last
	}
	sr.mu.Lock()
	multi := 0
	for k, v := range sr.shapes {
		c.Distinct("shape|" + k)
		c.Count("shape."+k, int64(v))
		if strings.Contains(k, "bot=3") || strings.Contains(k, "bot=4") || strings.Contains(k, "bot=5") || strings.Contains(k, "bot=6") {
			multi += v
		}
	}
	sr.mu.Unlock()
	c.Count("structure.compactions_with_3plus_bottom_tables(split sub-compactions)", int64(multi))
	if c.Counter("structure.adjacent_pairs_checked") == 0 || multi == 0 {
		c.Inconclusive("no multi-table levels or no split compactions were observed")
	}
	c.Sample(map[string]any{"validator": "per level>=1: sorted, right_i < left_i+1 by CompareKeys and by user key; files == MANIFEST == Tables(); VerifyChecksum"})
	c.Assume("crash-interrupted histories are validated by the C08 recovery checks with the same validator; stream-writer loads and drops by C26/C29")
}
