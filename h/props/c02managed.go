package props

import (
	"errors"
	"fmt"
	"os"
	"path/filepath"

	badger "github.com/dgraph-io/badger/v4"

	"verif/h/core"
	"verif/h/hist"
)

// c02ManagedScripts: managed mode with caller-chosen, NON-monotonic commit timestamps. Single
// goroutine, several transactions open at once. Reference rule (the documented SSI contract, exact
// here because nothing is cleaned up while the discard timestamp stays 0): CommitAt of T (read
// timestamp r, read set R) must fail with ErrConflict iff some transaction whose CommitAt already
// succeeded wrote a key of R at a commit timestamp > r; otherwise it must succeed.
func c02ManagedScripts(c *core.Ctx, work string, idx int) {
	r := c.Rand(fmt.Sprintf("c02-managed-script-%d", idx))
	dir := filepath.Join(work, fmt.Sprintf("ms%d", idx))
	_ = os.MkdirAll(dir, 0o755)
	defer os.RemoveAll(dir)
	ov := hist.SmallOptions(dir, []int{0, 4, 6}[idx%3], r)
	db, err := badger.OpenManaged(ov.Opt)
	if err != nil {
		c.Inconclusive("open: " + err.Error())
		return
	}
	defer db.Close()
	nKeys := 4 + r.Intn(5)
	key := func(i int) []byte { return []byte(fmt.Sprintf("k%02d", i)) }
	type committed struct {
		ts     uint64
		writes map[int]bool
	}
	type open struct {
		txn    *badger.Txn
		readTs uint64
		reads  map[int]bool
		writes map[int]bool
		steps  []string
	}
	var done []committed
	var opens []*open
	used := map[uint64]bool{}
	maxTs := uint64(10)
	var log []string
	c.Eval(1)
	for step := 0; step < c.Pick(150, 400) && c.Violations() == 0; step++ {
		switch x := r.Intn(10); {
		case x < 4 && len(opens) < 5:
			o := &open{readTs: 1 + uint64(r.Int63n(int64(maxTs+2))), reads: map[int]bool{}, writes: map[int]bool{}}
			o.txn = db.NewTransactionAt(o.readTs, true)
			for n := 1 + r.Intn(3); n > 0; n-- {
				k := r.Intn(nKeys)
				{
					// Gets only: an iterator registers every item it prefetches as read, which makes
					// the must-accept side of the rule inexact
					_, _ = o.txn.Get(key(k))
					o.reads[k] = true
				}
			}
			for n := 1 + r.Intn(2); n > 0; n-- {
				k := r.Intn(nKeys)
				if err := o.txn.Set(key(k), []byte(fmt.Sprintf("v%d", step))); err == nil {
					o.writes[k] = true
				}
			}
			opens = append(opens, o)
			log = append(log, fmt.Sprintf("begin readTs=%d reads=%v writes=%v", o.readTs, keysOf(o.reads), keysOf(o.writes)))
		case len(opens) > 0:
			i := r.Intn(len(opens))
			o := opens[i]
			opens = append(opens[:i], opens[i+1:]...)
			cts := 1 + uint64(r.Int63n(int64(maxTs+3)))
			for used[cts] {
				cts++
			}
			used[cts] = true
			if cts > maxTs {
				maxTs = cts
			}
			wantConflict := false
			var culprit uint64
			for _, d := range done {
				if d.ts > o.readTs {
					for k := range d.writes {
						if o.reads[k] {
							wantConflict, culprit = true, d.ts
						}
					}
				}
			}
			err := o.txn.CommitAt(cts, nil)
			o.txn.Discard()
			log = append(log, fmt.Sprintf("CommitAt(%d) of txn readTs=%d reads=%v writes=%v -> %v (reference: conflict=%v)", cts, o.readTs, keysOf(o.reads), keysOf(o.writes), err, wantConflict))
			c.Count("managed_script.commits", 1)
			wit := map[string]any{"options": ov.Name, "last_steps": log[max(0, len(log)-25):]}
			switch {
			case wantConflict && err == nil:
				c.Violation("C02|managed-script|accepted-despite-conflict", fmt.Sprintf("CommitAt(%d) of a transaction that read at %d succeeded although a transaction committed at %d (> %d) had written a key it read", cts, o.readTs, culprit, o.readTs), wit)
			case !wantConflict && errors.Is(err, badger.ErrConflict):
				c.Violation("C02|managed-script|unjustified-conflict", fmt.Sprintf("CommitAt(%d) of a transaction that read at %d returned ErrConflict although no committed transaction above %d wrote a key it read", cts, o.readTs, o.readTs), wit)
			case err != nil && !errors.Is(err, badger.ErrConflict):
				c.Violation("C02|managed-script|commit-error", err.Error(), wit)
			}
			if wantConflict {
				c.Count("managed_script.must_reject", 1)
			}
			if err == nil {
				done = append(done, committed{cts, o.writes})
				if n := len(done); n >= 2 && done[n-1].ts < done[n-2].ts {
					c.Count("managed_script.out_of_order_commits", 1)
				}
			}
		}
	}
	for _, o := range opens {
		o.txn.Discard()
	}
	if idx < 1 {
		c.Sample(map[string]any{"managed_script": log[:min(len(log), 12)]})
	}
	c.Distinct(fmt.Sprintf("managed-script|%s|keys=%d", ov.Name, nKeys))
}

func keysOf(m map[int]bool) []int {
	var out []int
	for k := range m {
		out = append(out, k)
	}
	for i := range out {
		for j := i + 1; j < len(out); j++ {
			if out[j] < out[i] {
				out[i], out[j] = out[j], out[i]
			}
		}
	}
	return out
}
