package props

import (
	"bytes"
	"encoding/binary"
	"errors"
	"fmt"
	"os"
	"path/filepath"

	badger "github.com/dgraph-io/badger/v4"

	"verif/h/core"
	"verif/h/gen"
)

type c28Env struct {
	db      *badger.DB
	opt     badger.Options
	managed bool
	banned  map[uint64]bool
	ts      uint64
}

// wantReject is the pure predicate from the statement.
func (e *c28Env) wantReject(key, val []byte, isSet bool, isGet bool) string {
	switch {
	case len(key) == 0:
		return "empty key"
	case isGet:
		// reads only treat banned namespaces (and the empty key) as inaccessible
	case bytes.HasPrefix(key, []byte("!badger!")):
		return "reserved prefix"
	case len(key) > 65000:
		return "key too long"
	}
	if isSet {
		if int64(len(val)) > e.opt.ValueLogFileSize {
			return "value > ValueLogFileSize"
		}
		if e.opt.InMemory && int64(len(val)) > e.opt.ValueThreshold {
			return "value > threshold in memory mode"
		}
	}
	if off := e.opt.NamespaceOffset; off >= 0 && len(key) > off+8 {
		if e.banned[binary.BigEndian.Uint64(key[off:off+8])] {
			return "banned namespace"
		}
	}
	return ""
}

func (e *c28Env) begin(update bool) *badger.Txn {
	if e.managed {
		return e.db.NewTransactionAt(^uint64(0)>>1, update)
	}
	return e.db.NewTransaction(update)
}

func (e *c28Env) commit(txn *badger.Txn) error {
	if e.managed {
		e.ts++
		return txn.CommitAt(e.ts, nil)
	}
	return txn.Commit()
}

// C28 validation of keys and sizes; accepted transactions fit.
func C28(c *core.Ctx) {
	c.Rule("part A: boundary ladders of keys (empty, !badger! prefixes, 64999/65000/65001 bytes, hostile bytes) and values (ValueLogFileSize-1/=/+1, in-memory threshold " +
		"-1/=/+1), namespace offsets 0/3 with banned namespaces (also after Close and re-open), for Set, Delete and Get: err != nil must equal the statement's predicate, a rejected call leaves the " +
		"transaction unaffected (earlier writes commit and read back, rejected key absent), accepted writes round trip; part B: for memtable sizes 1/2/4 MiB (ValueThreshold " +
		"raised to the batch limit so values count in full) transactions of n=1..12 entries whose accounted size sweeps every value in the last 64 bytes below the " +
		"largest accepted size, and entry counts in the last 4 below the count limit, committed at small and at 19-digit managed timestamps, plus transactions writing the same 3 keys up to the count limit and managed write batches holding 2x the count limit of versions of 3 keys: once every Set was accepted, " +
		"Commit must not return ErrTxnTooBig; part C: the same guarantee when the value threshold moves between the Sets and the Commit (VLogPercentile with other commits of larger values in between; in-memory database with a DropAll in between): hundreds of values that were accounted as value-log pointers when they were set; distinct = (part, mode, n, boundary class) cases")
	work := c.WorkDir()
	defer os.RemoveAll(work)
	r := c.Rand("c28")

	// ---------------- part A
	type cfgA struct {
		name   string
		inmem  bool
		nsOff  int
		vlogSz int64
		reopen bool // close and re-open after the namespaces were banned
	}
	for ci, ca := range []cfgA{{"disk", false, -1, 1 << 20, false}, {"inmem", true, -1, 1 << 20, false}, {"ns0", false, 0, 1 << 20, false}, {"ns3", false, 3, 2 << 20, false},
		{"ns0-reopened", false, 0, 1 << 20, true}, {"ns3-reopened", false, 3, 1 << 20, true}} {
		dir := filepath.Join(work, "a"+ca.name)
		o := badger.DefaultOptions(dir).WithLogger(nil)
		o.MemTableSize = 8 << 20
		o.ValueLogFileSize = ca.vlogSz
		o.ValueThreshold = 1024
		o.NamespaceOffset = ca.nsOff
		o.MetricsEnabled = false
		if ca.inmem {
			o = o.WithInMemory(true)
			o.Dir, o.ValueDir = "", ""
			o.ValueThreshold = 4096
		}
		db, err := badger.Open(o)
		if err != nil {
			c.Inconclusive("open A: " + err.Error())
			continue
		}
		env := &c28Env{db: db, opt: o, banned: map[uint64]bool{}}
		if ca.nsOff >= 0 {
			for _, ns := range []uint64{0, 7, binary.BigEndian.Uint64([]byte("aaaaaaaa")), ^uint64(0)} {
				if err := db.BanNamespace(ns); err != nil {
					c.Violation("C28|A|ban", err.Error(), nil)
				}
				env.banned[ns] = true
			}
		}
		if ca.reopen {
			// bans are part of the stored state: they must hold after Close and Open as well
			if err := db.Close(); err != nil {
				c.Violation("C28|A|close", err.Error(), nil)
			}
			if db, err = badger.Open(o); err != nil {
				c.Violation("C28|A|reopen", err.Error(), nil)
				continue
			}
			env.db = db
			got := map[uint64]bool{}
			for _, ns := range db.BannedNamespaces() {
				got[ns] = true
			}
			if len(got) != len(env.banned) {
				c.Violation("C28|A|banned-set-after-reopen", fmt.Sprintf("after re-open BannedNamespaces() lists %d namespaces, %d were banned (offset %d)", len(got), len(env.banned), ca.nsOff), nil)
			}
		}
		var keys [][]byte
		keys = append(keys, []byte{}, []byte("!badger!"), []byte("!badger!x"), []byte("!badger"), []byte("!badger!txn"), []byte("x!badger!"),
			bytes.Repeat([]byte{'k'}, 64999), bytes.Repeat([]byte{'k'}, 65000), bytes.Repeat([]byte{'k'}, 65001), bytes.Repeat([]byte{0xFF}, 70000), []byte{0}, []byte{0xFF})
		for i := 0; i < 30; i++ {
			keys = append(keys, gen.Key(r, 14))
		}
		if ca.nsOff >= 0 {
			for _, ns := range []uint64{0, 7, 8, binary.BigEndian.Uint64([]byte("aaaaaaaa")), ^uint64(0), 12345} {
				for _, tail := range [][]byte{{}, {1}, []byte("tail")} {
					k := append(bytes.Repeat([]byte{'p'}, ca.nsOff), make([]byte, 8)...)
					binary.BigEndian.PutUint64(k[ca.nsOff:], ns)
					keys = append(keys, append(k, tail...))
				}
			}
		}
		vals := []int{0, 1, 100, 1023, 1024, 1025, 4095, 4096, 4097, int(ca.vlogSz) - 1, int(ca.vlogSz), int(ca.vlogSz) + 1}
		big := map[int][]byte{}
		for _, n := range vals {
			big[n] = gen.Expand(fmt.Sprintf("v%d", n), n)
		}
		written := map[string]bool{}
		for ki, k := range keys {
			for vi, vn := range vals {
				if vn > 5000 && ki%4 != 0 && len(k) < 60000 {
					continue // keep the cross product affordable
				}
				for _, op := range []string{"set", "delete", "get"} {
					if op != "set" && vi > 0 {
						continue
					}
					isSet := op == "set"
					want := env.wantReject(k, big[vn], isSet, op == "get")
					txn := env.begin(op != "get")
					sentinel := []byte(fmt.Sprintf("sentinel-%d-%d", ci, ki))
					if op != "get" {
						_ = txn.Set(sentinel, []byte("S"))
					}
					var err error
					switch op {
					case "set":
						err = txn.Set(k, big[vn])
					case "delete":
						err = txn.Delete(k)
					default:
						_, err = txn.Get(k)
						if errors.Is(err, badger.ErrKeyNotFound) {
							err = nil
						}
					}
					c.Eval(1)
					c.Distinct(fmt.Sprintf("A|%s|%s|%s", ca.name, op, want))
					info := map[string]any{"cfg": ca.name, "op": op, "keylen": len(k), "key_head": fmt.Sprintf("%x", k[:min(len(k), 16)]), "vallen": vn, "want_reject": want}
					if errors.Is(err, badger.ErrTxnTooBig) && want == "" {
						c.Violation("C28|A|txn-too-big-on-single-write", "a single valid write was refused with ErrTxnTooBig", info)
						txn.Discard()
						continue
					}
					if (err != nil) != (want != "") {
						c.Violation(fmt.Sprintf("C28|A|%s|predicate|%s", op, map[bool]string{true: "should-reject:" + want, false: "should-accept"}[want != ""]),
							fmt.Sprintf("%s(key len %d, value len %d) returned %v, statement says reject=%q", op, len(k), vn, err, want), info)
						txn.Discard()
						continue
					}
					if op == "get" {
						txn.Discard()
						continue
					}
					// the rest of the transaction behaves as if a rejected call never happened
					if it, gerr := txn.Get(sentinel); gerr != nil {
						c.Violation("C28|A|txn-affected", fmt.Sprintf("after the call, Get of an earlier pending write failed: %v", gerr), info)
					} else if v, _ := it.ValueCopy(nil); string(v) != "S" {
						c.Violation("C28|A|txn-affected", "earlier pending write changed", info)
					}
					if cerr := env.commit(txn); cerr != nil {
						c.Violation("C28|A|commit", fmt.Sprintf("Commit failed: %v", cerr), info)
						continue
					}
					rt := env.begin(false)
					if _, gerr := rt.Get(sentinel); gerr != nil {
						c.Violation("C28|A|sentinel-lost", fmt.Sprintf("earlier write of the transaction not committed: %v", gerr), info)
					}
					if want == "" {
						written[string(k)] = true
						it, gerr := rt.Get(k)
						switch {
						case op == "set" && gerr != nil:
							c.Violation("C28|A|roundtrip", fmt.Sprintf("accepted Set not readable: %v", gerr), info)
						case op == "set":
							if v, _ := it.ValueCopy(nil); !bytes.Equal(v, big[vn]) {
								c.Violation("C28|A|roundtrip", "accepted Set reads back different bytes", info)
							}
						case op == "delete" && gerr == nil:
							c.Violation("C28|A|roundtrip", "accepted Delete left the key visible", info)
						}
					} else if len(k) > 0 && !written[string(k)] && want != "banned namespace" && !bytes.HasPrefix(k, []byte("!badger!")) && len(k) <= 65000 {
						if _, gerr := rt.Get(k); gerr == nil {
							c.Violation("C28|A|rejected-visible", "a rejected write is visible", info)
						}
					}
					rt.Discard()
				}
			}
		}
		_ = db.Close()
		_ = os.RemoveAll(dir)
	}

	// ---------------- part B: size boundary
	for _, managed := range []bool{false, true} {
		for _, mt := range []int64{1 << 20, 2 << 20, 4 << 20} {
			if !c.Thorough() && mt == 4<<20 {
				continue
			}
			dir := filepath.Join(work, fmt.Sprintf("b%v%d", managed, mt))
			o := badger.DefaultOptions(dir).WithLogger(nil)
			o.MemTableSize = mt
			o.ValueThreshold = (15 * mt) / 100
			if o.ValueThreshold > 1<<20 {
				o.ValueThreshold = 1 << 20
			}
			o.ValueLogFileSize = 16 << 20
			o.MetricsEnabled = false
			db, err := openDB(o, managed)
			if err != nil {
				c.Inconclusive("open B: " + err.Error())
				continue
			}
			env := &c28Env{db: db, opt: o, managed: managed, ts: 1 << 62}
			if !managed {
				// push the commit timestamp past 100 so that its decimal form has 3+ digits
				for i := 0; i < 120; i++ {
					_ = db.Update(func(txn *badger.Txn) error { return txn.Set([]byte("warm"), []byte("x")) })
				}
			}
			maxSize := db.MaxBatchSize()
			for n := 1; n <= 12; n++ {
				if !c.Thorough() && n > 4 && n%4 != 0 {
					continue
				}
				per := int(maxSize) / n
				mk := func(last int) (*badger.Txn, error) {
					txn := env.begin(true)
					for i := 0; i < n; i++ {
						sz := per - 200
						if i == n-1 {
							sz = last
						}
						if sz < 0 {
							sz = 0
						}
						if err := txn.Set([]byte(fmt.Sprintf("k%02d", i)), make([]byte, sz)); err != nil {
							return txn, err
						}
					}
					return txn, nil
				}
				// largest accepted size of the last value (binary search)
				lo, hi := 0, int(maxSize)
				for lo < hi {
					mid := (lo + hi + 1) / 2
					txn, err := mk(mid)
					txn.Discard()
					if err == nil {
						lo = mid
					} else {
						hi = mid - 1
					}
				}
				for d := 0; d <= 64; d++ {
					last := lo - d
					if last < 0 {
						break
					}
					txn, err := mk(last)
					c.Eval(1)
					info := map[string]any{"managed": managed, "memtable": mt, "entries": n, "last_value_len": last, "below_largest_accepted": d, "maxBatchSize": maxSize}
					if err != nil {
						txn.Discard()
						c.Violation("C28|B|non-monotone-accept", fmt.Sprintf("a smaller transaction was refused: %v", err), info)
						continue
					}
					cerr := env.commit(txn)
					if errors.Is(cerr, badger.ErrTxnTooBig) {
						c.Violation("C28|B|accepted-then-too-big", fmt.Sprintf("every Set was accepted (n=%d, last value %d bytes, %d below the largest accepted) but Commit returned ErrTxnTooBig", n, last, d), info)
					} else if cerr != nil {
						c.Violation("C28|B|commit-error", cerr.Error(), info)
					}
					c.Distinct(fmt.Sprintf("B|managed=%v|n=%d|d=%d", managed, n, min(d, 8)))
				}
			}
			// count boundary
			maxCount := int(db.MaxBatchCount())
			for d := 0; d < 4; d++ {
				txn := env.begin(true)
				accepted := 0
				for i := 0; i < maxCount+2; i++ {
					if err := txn.Set([]byte(fmt.Sprintf("c%06d", i)), []byte("v")); err != nil {
						break
					}
					accepted++
					if accepted == maxCount-2-d {
						break
					}
				}
				c.Eval(1)
				if cerr := env.commit(txn); errors.Is(cerr, badger.ErrTxnTooBig) {
					c.Violation("C28|B|count|accepted-then-too-big", fmt.Sprintf("%d accepted entries (limit %d) but Commit returned ErrTxnTooBig", accepted, maxCount), nil)
				}
				c.Distinct(fmt.Sprintf("B|count|managed=%v|d=%d", managed, d))
			}
			// the same key again and again in one transaction (the pending write is replaced, or - at
			// another version in managed mode - kept as a duplicate that is sent along)
			{
				txn := env.begin(true)
				accepted := 0
				for i := 0; i < maxCount-3; i++ {
					if err := txn.Set([]byte(fmt.Sprintf("same%d", i%3)), []byte(fmt.Sprintf("v%d", i))); err != nil {
						break
					}
					accepted++
				}
				c.Eval(1)
				if cerr := env.commit(txn); errors.Is(cerr, badger.ErrTxnTooBig) {
					c.Violation("C28|B|same-key|accepted-then-too-big", fmt.Sprintf("%d accepted writes of 3 keys (limit %d) but Commit returned ErrTxnTooBig", accepted, maxCount), nil)
				}
				c.Distinct(fmt.Sprintf("B|same-key|managed=%v", managed))
			}
			if managed {
				wb := db.NewManagedWriteBatch()
				nv := 2*maxCount + 7
				var serr error
				for i := 0; i < nv && serr == nil; i++ {
					serr = wb.SetEntryAt(badger.NewEntry([]byte(fmt.Sprintf("dup%d", i%3)), []byte(fmt.Sprintf("v%d", i))), uint64(1000+i))
				}
				ferr := wb.Flush()
				c.Eval(1)
				if serr == nil && errors.Is(ferr, badger.ErrTxnTooBig) {
					c.Violation("C28|B|batch-versions|accepted-then-too-big", fmt.Sprintf("%d versions of 3 keys were all accepted by a managed write batch (count limit %d) but Flush returned ErrTxnTooBig", nv, maxCount), nil)
				} else if serr != nil || ferr != nil {
					c.Violation("C28|B|batch-versions|error", fmt.Sprintf("managed write batch of %d versions: SetEntryAt=%v Flush=%v", nv, serr, ferr), nil)
				} else {
					// every version must read back
					missing := 0
					for i := 0; i < nv; i++ {
						rt := db.NewTransactionAt(uint64(1000+i), false)
						it, err := rt.Get([]byte(fmt.Sprintf("dup%d", i%3)))
						if err != nil || it.Version() != uint64(1000+i) {
							missing++
						}
						rt.Discard()
					}
					c.Count("sizes.batch_versions_read_back", int64(nv-missing))
					if missing > 0 {
						c.Violation("C28|B|batch-versions|lost", fmt.Sprintf("%d of %d accepted versions are not readable at their timestamp", missing, nv), nil)
					}
				}
				c.Distinct("B|batch-versions")
			}
			_ = db.Close()
			_ = os.RemoveAll(dir)
		}
	}
	// ---------------- part C: the value threshold moves between the Sets and the Commit
	for i := 0; i < c.Pick(4, 16); i++ {
		c28MovingThreshold(c, work, i)
	}
	c.Sample(map[string]any{"partA": "Set(key=65001 x 'k', value 100 bytes) on disk DB -> want reject 'key too long'", "partB": "n entries sized so the accounted size is 0..64 bytes below the largest accepted, then Commit"})
	c.Assume("single writes larger than the batch limit of a deliberately tiny memtable are outside part A (memtable 8 MiB there); read-side banned-namespace checks use Get")
}

// c28MovingThreshold: every Set was accepted (values at or above the threshold are accounted as
// pointers), then the threshold rises above those values before Commit; Commit must not answer
// ErrTxnTooBig and everything must read back.
func c28MovingThreshold(c *core.Ctx, work string, idx int) {
	dir := filepath.Join(work, fmt.Sprintf("moving%d", idx))
	_ = os.MkdirAll(dir, 0o755)
	defer os.RemoveAll(dir)
	inMem := idx%2 == 1
	o := badger.DefaultOptions(dir).WithLogger(nil)
	o.MemTableSize = 1 << 20
	o.NumCompactors = 2
	var valSize, n int
	if inMem {
		o.InMemory, o.Dir, o.ValueDir = true, "", ""
		o.MemTableSize = 4 << 20
		o.ValueThreshold = 64 << 10
		valSize, n = 64<<10, 12 // exactly the threshold: stored in the LSM tree by the in-memory rule
	} else {
		o.ValueThreshold = 32
		o.VLogPercentile = []float64{0.5, 0.9}[idx/2%2]
		valSize, n = 1000, 400+100*(idx%3)
	}
	db, err := badger.Open(o)
	if err != nil {
		c.Inconclusive("open: " + err.Error())
		return
	}
	defer db.Close()
	t0 := db.VerifValueThreshold()
	txn := db.NewTransaction(true)
	defer txn.Discard()
	for i := 0; i < n; i++ {
		if err := txn.Set([]byte(fmt.Sprintf("mv%05d", i)), gen.Expand(fmt.Sprintf("V%d.%d", idx, i), valSize)); err != nil {
			c.Inconclusive(fmt.Sprintf("part C: Set %d of %d refused: %v", i, n, err))
			return
		}
	}
	if inMem {
		if err := db.DropAll(); err != nil {
			c.Inconclusive("part C: DropAll: " + err.Error())
			return
		}
	} else {
		for i := 0; i < 400 && db.VerifValueThreshold() <= int64(valSize); i++ {
			_ = db.Update(func(t *badger.Txn) error { return t.Set([]byte(fmt.Sprintf("big%04d", i)), gen.Expand("B", 5000)) })
		}
	}
	t1 := db.VerifValueThreshold()
	c.Eval(1)
	info := map[string]any{"in_memory": inMem, "values": n, "value_size": valSize, "threshold_at_set": t0, "threshold_at_commit": t1}
	if t1 > t0 {
		c.Count("partC.threshold_rose_before_commit", 1)
		c.Distinct(fmt.Sprintf("C|inmem=%v|threshold-rose", inMem))
	}
	err = txn.Commit()
	if errors.Is(err, badger.ErrTxnTooBig) {
		c.Violation("C28|C|accepted-then-too-big", fmt.Sprintf("%d Sets of %d-byte values were all accepted (threshold %d), the threshold moved to %d, Commit returned ErrTxnTooBig", n, valSize, t0, t1), info)
		return
	}
	if err != nil {
		c.Violation("C28|C|commit-error", err.Error(), info)
		return
	}
	_ = db.View(func(rt *badger.Txn) error {
		for i := 0; i < n; i++ {
			it, err := rt.Get([]byte(fmt.Sprintf("mv%05d", i)))
			if err != nil {
				c.Violation("C28|C|read-back", fmt.Sprintf("key %d: %v", i, err), info)
				return nil
			}
			v, _ := it.ValueCopy(nil)
			if string(v) != string(gen.Expand(fmt.Sprintf("V%d.%d", idx, i), valSize)) {
				c.Violation("C28|C|read-back", fmt.Sprintf("key %d: %d bytes read, %d written", i, len(v), valSize), info)
				return nil
			}
		}
		return nil
	})
}
