package props

import (
	"fmt"
	"os"

	"verif/h/core"
	"verif/h/hist"
)

// C04 own pending writes.
func C04(c *core.Ctx) {
	c.Rule("1-3 clients run read-write transactions of up to 10 Set/SetEntry(meta, past/future expiry, discard)/Delete calls over 12-30 hostile keys, " +
		"each followed by Get of the written or another key or by an iterator (forward, reverse, Prefix, Seek, SinceTs, AllVersions, key iterator, " +
		"ValidForPrefix) created after the write; the oracle overlays the pending map (as it was when the iterator was created) on Visible(readTs); " +
		"a pinned transaction keeps every version so AllVersions is exact; other transactions never see uncommitted tokens (read oracle); " +
		"distinct = (iterator shape, overlay size class, overlay has delete, overlay has expired) classes checked")
	work := c.WorkDir()
	defer os.RemoveAll(work)
	idx := 0
	for round := 0; round < c.Pick(2, 10); round++ {
		for _, v := range []int{0, 1, 2, 4, 6} {
			idx++
			hr := HistRun{Variant: v, Pin: true, NKeys: 12 + (idx%4)*6, MaxKey: 6,
				Mix: func(keys [][]byte) hist.Mix {
					m := hist.DefaultMix(keys)
					m.Clients = 1 + idx%3
					m.TxnsPerClient = c.Pick(600, 1200)
					m.ROFrac = 0.1
					m.IterFrac = 0.5
					m.MaxReads = 2
					m.MaxWrites = 10
					m.OwnReadFrac = 1
					m.DeleteFrac = 0.25
					m.MetaFrac = 0.5
					m.ExpireFrac = 0.5
					m.DiscardFrac = 0.2
					m.AllVersions = true
					m.SinceTs = true
					m.HeldFrac = 0
					m.AsyncFrac = 0
					m.ValSizes = []int{24, 63, 64, 65, 300}
					return m
				}}
			res, err := runHistory(c, work, idx, hr)
			if err != nil {
				c.Inconclusive(err.Error())
				continue
			}
			c.Eval(1)
			reportProbs(c, "C04", res.Probs, res.Name)
			st := hist.CheckReads(c, "C04", res.H, res.M)
			addReadStats(c, st)
			for _, t := range res.H.Txns {
				for _, rr := range t.Reads {
					if rr.Kind == "get" {
						if rr.Own != nil {
							c.Distinct(fmt.Sprintf("get-own|del=%v|exp=%v", rr.Own.Del, rr.Own.ExpiresAt != 0))
							if t.CommitTs != 0 && t.ReadTs+1 == t.CommitTs {
								c.Count("own.reads_in_txn_committed_at_readTs+1", 1)
							}
						}
						continue
					}
					if len(rr.Overlay) == 0 {
						continue
					}
					del, exp := false, false
					for _, v := range rr.Overlay {
						del = del || v.Del
						exp = exp || v.ExpiresAt != 0
					}
					c.Count("own.iterators_with_overlay", 1)
					c.Distinct(fmt.Sprintf("iter|rev=%v|all=%v|prefix=%v|since=%v|keyiter=%v|vfp=%v|ov=%d|del=%v|exp=%v", rr.Opts.Reverse, rr.Opts.AllVersions,
						len(rr.Opts.Prefix) > 0, rr.Opts.SinceTs > 0, rr.Opts.OnlyKey != nil, rr.VFP != nil, min(len(rr.Overlay), 3), del, exp))
				}
			}
			if idx <= 2 {
				c.Sample(histSample(res))
			}
			_ = res.DB.Close()
			_ = os.RemoveAll(res.Dir)
		}
	}
	if c.Counter("own.iterators_with_overlay") == 0 || c.Counter("reads.gets_own_write") == 0 {
		c.Inconclusive("no own-write reads observed")
	}
	c.Assume("seeks issued under a configured Prefix carry that prefix (DESIGN C05 semantic boundary)")
}
