package props

import (
	"fmt"
	"math/rand"
	"os"
	"os/exec"
	"path/filepath"
	"strings"

	badger "github.com/dgraph-io/badger/v4"

	"verif/h/core"
	"verif/h/drv"
	"verif/h/gen"
	"verif/h/model"
)

func inMemOptions(variant int) (badger.Options, string) {
	o, name := drvOptions("", variant)
	o.Dir, o.ValueDir = "", ""
	o.InMemory = true
	o.ValueThreshold = 2048 // in-memory mode refuses larger values; the script stays below
	if o.MemTableSize < 64<<10 {
		o.MemTableSize = 64 << 10
	}
	return o, "inmem-" + name
}

func diffLogs(a, b [][]string) string {
	if len(a) != len(b) {
		return fmt.Sprintf("number of checks differs: %d vs %d", len(a), len(b))
	}
	for i := range a {
		if len(a[i]) != len(b[i]) {
			return fmt.Sprintf("check %d: %d lines vs %d lines", i, len(a[i]), len(b[i]))
		}
		for j := range a[i] {
			if a[i][j] != b[i][j] {
				return fmt.Sprintf("check %d line %d: %q vs %q", i, j, a[i][j], b[i][j])
			}
		}
	}
	return ""
}

// C37 in-memory mode behaves like the on-disk database and touches no files.
func C37(c *core.Ctx) {
	c.Rule("twin runs: a script with every random choice drawn up front (transactions with sets/deletes/meta/past+future expiry, write batches cutting several internal " +
		"transactions, rotate+flush, production-picker and forced compactions, DropPrefix, DropAll) is executed on an InMemory database and on an on-disk database with the same " +
		"options (every third pair with SyncWrites, every fourth with VerifyValueChecksum and conflict detection off); after every flush/compaction/drop both states are compared with the model and, line by line (key, version, value digest, meta, expiry, both directions), with " +
		"each other; a child process replays a script in InMemory mode under strace -f in an empty working directory: no creating/writing file system call outside /proc,/sys,/dev " +
		"and the directory stays empty; distinct = (options, ops used: batch/dropprefix/dropall/compaction shapes) classes")
	work := c.WorkDir()
	defer os.RemoveAll(work)
	n := c.Pick(16, 150)
	for i := 0; i < n; i++ {
		seed := c.SubSeed(fmt.Sprintf("c37-%d", i))
		r := rand.New(rand.NewSource(seed))
		keys := gen.KeySet(r, 10+r.Intn(20), 7)
		script := genScript(r, keys, c.Pick(220, 400), []int{0, 24, 64, 65, 300, 1500}, true)
		var logs [2][][]string
		used := map[string]bool{}
		for _, op := range script {
			used[op.Kind] = true
		}
		for side := 0; side < 2; side++ {
			var opt badger.Options
			var name string
			dir := ""
			if side == 0 {
				opt, name = inMemOptions(i)
			} else {
				dir = filepath.Join(work, fmt.Sprintf("disk%d", i))
				_ = os.MkdirAll(dir, 0o755)
				opt, name = drvOptions(dir, i)
				opt.ValueThreshold = 2048
				if opt.MemTableSize < 64<<10 {
					opt.MemTableSize = 64 << 10
				}
			}
			// options that only mean something on disk (sync on every write, checksum verification, a
			// separate value directory is not possible in memory) are given to both sides all the same
			if i%3 == 1 {
				opt.SyncWrites = true
				name += "+syncwrites"
			}
			if i%4 == 2 {
				opt.VerifyValueChecksum = true
				opt.DetectConflicts = false
				name += "+verifychecksum+noconflicts"
			}
			db, err := badger.Open(opt)
			if err != nil {
				c.Inconclusive("open " + name + ": " + err.Error())
				continue
			}
			w := &drv.World{C: c, Sig: "C37|" + []string{"inmemory", "ondisk"}[side], DB: db, Opt: opt, M: model.New(), R: rand.New(rand.NewSource(1)), Keys: keys}
			logs[side] = execScript(c, w, script)
			_ = db.Close()
			if dir != "" {
				_ = os.RemoveAll(dir)
			}
		}
		c.Eval(1)
		if d := diffLogs(logs[0], logs[1]); d != "" && c.Violations() == 0 {
			c.Violation("C37|twin-differs", "in-memory and on-disk runs of the same history read differently: "+d, map[string]any{"seed": seed, "ops": len(script)})
		}
		c.Count("twin.checks_compared", int64(len(logs[0])))
		c.Distinct(fmt.Sprintf("variant=%d|sync=%v|verify=%v|batch=%v|dropprefix=%v|dropall=%v", i%6, i%3 == 1, i%4 == 2, used["batch"], used["dropprefix"], used["dropall"]))
		if i < 2 {
			var ex []string
			for _, op := range script[:min(12, len(script))] {
				ex = append(ex, op.Kind)
			}
			c.Sample(map[string]any{"seed": seed, "script_head": ex, "checks": len(logs[0])})
		}
	}
	c37Strace(c, work)
	if c.Counter("twin.checks_compared") == 0 {
		c.Inconclusive("nothing compared")
	}
	c.Assume("values stay within the in-memory limit (ValueThreshold); value-log GC is not part of the histories (it does not exist in memory mode)")
}

func c37Strace(c *core.Ctx, work string) {
	cwd := filepath.Join(work, "inmem-cwd")
	_ = os.MkdirAll(cwd, 0o755)
	out := filepath.Join(work, "strace37.out")
	self, _ := os.Executable()
	cmd := exec.Command("strace", "-f", "-y", "-o", out, "-e", "trace=openat,open,creat,truncate,ftruncate,unlink,unlinkat,rename,renameat,renameat2,mkdir,mkdirat,link,linkat,symlink,symlinkat,mknod,mknodat",
		self, "C37", "--child-inmem", fmt.Sprint(c.Seed))
	cmd.Dir = cwd
	cmd.Env = append(os.Environ(), "VERIF_NOREPLAY=1")
	if b, err := cmd.CombinedOutput(); err != nil {
		c.Inconclusive("strace child failed: " + err.Error() + " " + string(b))
		return
	}
	b, _ := os.ReadFile(out)
	n := 0
	for _, ln := range strings.Split(string(b), "\n") {
		if ln == "" || strings.Contains(ln, "ENOENT") || strings.Contains(ln, "+++ exited") || strings.Contains(ln, "--- SIG") {
			continue
		}
		n++
		write := strings.Contains(ln, "O_WRONLY") || strings.Contains(ln, "O_RDWR") || strings.Contains(ln, "O_CREAT") || strings.Contains(ln, "O_TRUNC") ||
			strings.Contains(ln, "unlink") || strings.Contains(ln, "rename") || strings.Contains(ln, "truncate(") || strings.Contains(ln, "mkdir") || strings.Contains(ln, "link") || strings.Contains(ln, "mknod")
		if !write {
			continue
		}
		if strings.Contains(ln, "</dev/") || strings.Contains(ln, "\"/dev/") || strings.Contains(ln, "\"/proc/") || strings.Contains(ln, "\"/sys/") {
			continue
		}
		c.Violation("C37|strace|file-write-in-memory-mode", "an InMemory database issued a file-creating/writing system call: "+ln, nil)
		break
	}
	c.Count("strace.file_syscalls_seen", int64(n))
	ents, _ := os.ReadDir(cwd)
	if len(ents) != 0 {
		c.Violation("C37|strace|files-created-in-cwd", fmt.Sprintf("%d files appeared in the working directory of an InMemory run", len(ents)), nil)
	}
	c.Distinct("strace-inmem-session")
}

// ChildInMem replays a script on an InMemory database (run under strace by c37Strace).
func ChildInMem(seed int64) int {
	r := rand.New(rand.NewSource(seed))
	keys := gen.KeySet(r, 16, 7)
	script := genScript(r, keys, 300, []int{0, 24, 64, 300, 1500}, true)
	opt, _ := inMemOptions(0)
	db, err := badger.Open(opt)
	if err != nil {
		fmt.Println("open:", err)
		return 3
	}
	c := core.New("C37child", "quick", "exploration")
	w := &drv.World{C: c, Sig: "child", DB: db, Opt: opt, M: model.New(), R: r, Keys: keys}
	logs := execScript(c, w, script)
	fmt.Println("child checks", len(logs))
	if err := db.Close(); err != nil {
		return 4
	}
	return 0
}
