package props

import (
	"bytes"
	"errors"
	"fmt"
	"math/rand"
	"os"
	"path/filepath"

	badger "github.com/dgraph-io/badger/v4"

	"verif/h/core"
	"verif/h/gen"
	"verif/h/hist"
)

type wbCall struct {
	Idx     int
	Key     string
	Version uint64 // 0 in normal mode
	Del     bool
	Token   string
	Len     int
	Meta    byte
	Expires uint64
}

// c27Run runs one batch scenario and compares the final state with the call-order model.
func c27Run(c *core.Ctx, work string, idx int, mode string, r *rand.Rand) {
	dir := filepath.Join(work, fmt.Sprintf("wb%d", idx))
	_ = os.MkdirAll(dir, 0o755)
	defer os.RemoveAll(dir)
	ov := hist.SmallOptions(dir, []int{0, 1, 6, 3}[idx%4], r)
	ov.Opt.NumVersionsToKeep = 1 << 30
	ov.Opt.NumCompactors = 0 // nothing is discarded: every (key, version) stays readable
	managed := mode != "normal"
	db, err := openDB(ov.Opt, managed)
	if err != nil {
		c.Inconclusive("open: " + err.Error())
		return
	}
	defer db.Close()
	keys := gen.KeySet(r, 3+r.Intn(12), 6)
	nBatches := 1 + r.Intn(3)
	// model: (key, version) -> last call
	type kv struct {
		k string
		v uint64
	}
	last := map[kv]wbCall{}
	var calls []wbCall
	var nextTs uint64 = 10
	splits := 0
	for b := 0; b < nBatches; b++ {
		var wb *badger.WriteBatch
		var batchTs uint64
		switch mode {
		case "normal":
			wb = db.NewWriteBatch()
		case "at":
			batchTs = nextTs + uint64(r.Intn(5))
			if r.Intn(4) == 0 && batchTs > 12 {
				batchTs -= 2 // non-monotonic batch timestamps are legal in managed mode
			}
			nextTs = batchTs + 1
			wb = db.NewWriteBatchAt(batchTs)
		default:
			wb = db.NewManagedWriteBatch()
		}
		nOps := []int{1, 5, 40, 150, 600, 2000}[r.Intn(6)]
		if !c.Thorough() && nOps > 600 {
			nOps = 600
		}
		maxCount := int(db.MaxBatchCount())
		splits += nOps / maxCount
		for i := 0; i < nOps; i++ {
			k := keys[r.Intn(len(keys))]
			call := wbCall{Idx: len(calls), Key: string(k), Token: fmt.Sprintf("b%d.c%d", b, len(calls))}
			call.Len = []int{24, 40, 64, 65, 300, 1500}[r.Intn(6)]
			var ver uint64
			if mode == "managed" {
				ver = 20 + uint64(r.Intn(4)) // few versions: repeats and alternations are common
				call.Version = ver
			} else {
				call.Version = batchTs
			}
			var err error
			kc := append([]byte{}, k...)
			switch op := r.Intn(10); {
			case op < 2:
				call.Del = true
				if mode == "managed" {
					err = wb.DeleteAt(kc, ver)
				} else {
					err = wb.Delete(kc)
				}
			case op < 6:
				if mode == "managed" {
					err = wb.SetEntryAt(badger.NewEntry(kc, gen.Expand(call.Token, call.Len)), ver)
				} else {
					err = wb.Set(kc, gen.Expand(call.Token, call.Len))
				}
			default:
				call.Meta = byte(1 + r.Intn(200))
				e := badger.NewEntry(kc, gen.Expand(call.Token, call.Len)).WithMeta(call.Meta)
				if r.Intn(3) == 0 {
					call.Expires = hist.FarFuture()
					e.ExpiresAt = call.Expires
				}
				if mode == "managed" {
					err = wb.SetEntryAt(e, ver)
				} else {
					err = wb.SetEntry(e)
				}
			}
			if err != nil {
				c.Violation("C27|"+mode+"|call-error", fmt.Sprintf("batch call %d failed: %v", call.Idx, err), nil)
				wb.Cancel()
				return
			}
			calls = append(calls, call)
			vkey := kv{string(k), call.Version}
			if mode == "normal" {
				vkey.v = 0
			}
			last[vkey] = call
		}
		if err := wb.Flush(); err != nil {
			c.Violation("C27|"+mode+"|flush-error", "Flush returned "+err.Error(), nil)
			return
		}
	}
	c.Eval(1)
	// compare
	readAt := func(k string, ts uint64) (found bool, val []byte, meta byte, exp uint64, version uint64, err error) {
		var txn *badger.Txn
		if managed {
			txn = db.NewTransactionAt(ts, false)
		} else {
			txn = db.NewTransaction(false)
		}
		defer txn.Discard()
		it, e := txn.Get([]byte(k))
		if errors.Is(e, badger.ErrKeyNotFound) {
			return false, nil, 0, 0, 0, nil
		}
		if e != nil {
			return false, nil, 0, 0, 0, e
		}
		v, e := it.ValueCopy(nil)
		return true, v, it.UserMeta(), it.ExpiresAt(), it.Version(), e
	}
	info := map[string]any{"mode": mode, "options": ov.Name, "calls": len(calls), "keys": len(keys), "batches": nBatches}
	// newest version written per key (managed modes): a read far above it must return that version's last call
	maxVer := map[string]uint64{}
	for vk := range last {
		if vk.v > maxVer[vk.k] {
			maxVer[vk.k] = vk.v
		}
	}
	compare := func(stage string, above bool) {
		for vk, want := range last {
			ts := vk.v
			if mode == "normal" {
				ts = 0
			}
			if above {
				if !managed || vk.v != maxVer[vk.k] {
					continue
				}
				ts = vk.v + 1000
			}
			// in managed modes read exactly at the version: the newest write <= ts must be this one
			found, val, meta, exp, version, err := readAt(vk.k, ts)
			c.Count("c27.pairs_checked", 1)
			if err != nil {
				c.Violation("C27|"+mode+stage+"|read-error", err.Error(), info)
				continue
			}
			if managed && found && version != vk.v {
				// an older version shines through only if want is a delete (then found must be false)
				found = found && false
			}
			if want.Del {
				if found {
					c.Violation("C27|"+mode+stage+"|deleted-visible", fmt.Sprintf("key %x version %d: last call %d was a delete but a value is visible", vk.k, ts, want.Idx), info)
				}
				continue
			}
			if !found {
				c.Violation("C27|"+mode+stage+"|missing", fmt.Sprintf("key %x version %d: last call %d (set) is not visible", vk.k, ts, want.Idx), info)
				continue
			}
			if !bytes.Equal(val, gen.Expand(want.Token, want.Len)) || meta != want.Meta || exp != want.Expires {
				// which call produced what we read?
				gotCall := -1
				for _, cl := range calls {
					if !cl.Del && cl.Key == vk.k && bytes.Equal(val, gen.Expand(cl.Token, cl.Len)) {
						gotCall = cl.Idx
					}
				}
				kind := "wrong-value"
				if gotCall >= 0 && gotCall < want.Idx {
					kind = "earlier-call-wins"
					// was a different version of the same key written between the two calls inside the batch?
					for _, cl := range calls[gotCall+1 : want.Idx] {
						if cl.Key == vk.k && cl.Version != want.Version {
							kind = "earlier-call-wins|other-version-between"
							break
						}
					}
				}
				w := map[string]any{"info": info, "key": fmt.Sprintf("%x", vk.k), "version": ts, "want_call": want.Idx, "got_call": gotCall}
				var seq []string
				for _, cl := range calls {
					if cl.Key == vk.k {
						seq = append(seq, fmt.Sprintf("#%d v%d del=%v", cl.Idx, cl.Version, cl.Del))
					}
				}
				if len(seq) > 80 {
					seq = seq[len(seq)-80:]
				}
				w["calls_on_key"] = seq
				c.Violation("C27|"+mode+stage+"|"+kind, fmt.Sprintf("key %x version %d holds the value of call %d, the last call for it was %d", vk.k, ts, gotCall, want.Idx), w)
			}
		}
	}
	compare("", false)
	compare("|read-above", true)
	// the same pairs after the memtables were flushed to L0 tables by Close and the database re-opened
	if !ov.Opt.InMemory && (idx/3)%3 != 2 {
		if err := db.Close(); err != nil {
			c.Violation("C27|"+mode+"|close", err.Error(), info)
			return
		}
		var err error
		if db, err = openDB(ov.Opt, managed); err != nil {
			c.Violation("C27|"+mode+"|reopen", err.Error(), info)
			db, _ = openDB(ov.Opt, managed)
			return
		}
		compare("|after-reopen", false)
		compare("|after-reopen|read-above", true)
		c.Count("c27.reopen_runs", 1)
	}
	c.Distinct(fmt.Sprintf("%s|%s|splits=%d|batches=%d", mode, ov.Name, min(splits, 5), nBatches))
	if idx < 3 {
		c.Sample(info)
	}
}

// C27 WriteBatch applies every operation, later operations winning.
func C27(c *core.Ctx) {
	c.Rule("random WriteBatch call sequences (Set/SetEntry(meta,expiry)/Delete; SetEntryAt/DeleteAt in managed mode) over 3-14 keys with heavy reuse, 1-2000 " +
		"calls so that 0-40 internal transactions are cut, 1-3 batches, tiny memtables; modes NewWriteBatch, NewWriteBatchAt (also non-monotonic batch timestamps), " +
		"NewManagedWriteBatch with 4 alternating versions per key; after Flush()==nil every (key, version) is read (at the version and, for the newest version of a key, far above it) and must hold the last call's effect, " +
		"again after Close/re-open when the entries sit in several L0 tables; " +
		"distinct = (mode, options, internal split class, batches) combinations")
	work := c.WorkDir()
	defer os.RemoveAll(work)
	r := c.Rand("c27")
	n := c.Pick(450, 3000)
	for i := 0; i < n; i++ {
		c27Run(c, work, i, []string{"normal", "at", "managed"}[i%3], r)
	}
	c.Assume("compaction disabled and NumVersionsToKeep unbounded so that every written (key, version) remains readable")
}
