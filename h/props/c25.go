package props

import (
	"bytes"
	"context"
	"fmt"
	"math"
	"os"
	"path/filepath"
	"sort"
	"sync"
	"sync/atomic"
	"time"

	badger "github.com/dgraph-io/badger/v4"
	"github.com/dgraph-io/badger/v4/pb"
	"github.com/dgraph-io/ristretto/v2/z"

	"verif/h/core"
	"verif/h/drv"
	"verif/h/gen"
	"verif/h/hist"
	"verif/h/model"
	"verif/h/sched"
)

type ival struct{ lo, hi uint64 } // inclusive

func intersect(a, b []ival) []ival {
	var out []ival
	for _, x := range a {
		for _, y := range b {
			lo, hi := max(x.lo, y.lo), min(x.hi, y.hi)
			if lo <= hi {
				out = append(out, ival{lo, hi})
			}
		}
	}
	return out
}

type streamKV struct {
	Key     string
	Version uint64
	Sum     [8]byte
	Len     int
	Meta    byte
	Expires uint64
}

type streamRun struct {
	Call, Ret int64
	NumGo     int
	Prefix    []byte
	Since     uint64
	Choose    bool
	KVs       []streamKV
	MaxSend   int32
	Err       string
}

func chosen(k string) bool { return len(k)%2 == 0 }

// runStream runs one Stream over db and records what Send received.
func runStream(db *badger.DB, clock *atomic.Int64, numGo int, prefix []byte, since uint64, choose bool) *streamRun {
	sr := &streamRun{NumGo: numGo, Prefix: prefix, Since: since, Choose: choose}
	st := db.NewStream()
	st.NumGo = numGo
	st.Prefix = prefix
	st.SinceTs = since
	st.LogPrefix = "verif"
	if choose {
		st.ChooseKey = func(item *badger.Item) bool { return chosen(string(item.Key())) }
	}
	var inflight, maxIn atomic.Int32
	var mu sync.Mutex
	st.Send = func(buf *z.Buffer) error {
		n := inflight.Add(1)
		for {
			m := maxIn.Load()
			if n <= m || maxIn.CompareAndSwap(m, n) {
				break
			}
		}
		defer inflight.Add(-1)
		list, err := badger.BufferToKVList(buf)
		if err != nil {
			return err
		}
		time.Sleep(50 * time.Microsecond) // widen the window in which a concurrent Send would overlap
		mu.Lock()
		for _, kv := range list.Kv {
			if kv.StreamDone {
				continue
			}
			s := streamKV{Key: string(kv.Key), Version: kv.Version, Len: len(kv.Value), Expires: kv.ExpiresAt}
			s.Sum = sum8b(kv.Value)
			if len(kv.UserMeta) > 0 {
				s.Meta = kv.UserMeta[0]
			}
			sr.KVs = append(sr.KVs, s)
		}
		mu.Unlock()
		return nil
	}
	sr.Call = clock.Add(1)
	if err := st.Orchestrate(context.Background()); err != nil {
		sr.Err = err.Error()
	}
	sr.Ret = clock.Add(1)
	sr.MaxSend = maxIn.Load()
	return sr
}

func sum8b(b []byte) [8]byte { return hist.Sum8(b) }

// admissible returns the snapshot timestamps s for which the stream's output for key k is correct.
func admissible(m *model.DB, k string, got []streamKV, since uint64, now uint64) []ival {
	vs := m.M[k] // newest first
	// boundaries: the visible version is constant on [ts_i, ts_{i-1}-1]
	var out []ival
	// interval before the first version: key absent
	type seg struct {
		lo, hi uint64
		v      *model.Ver
	}
	var segs []seg
	if len(vs) == 0 {
		segs = append(segs, seg{0, math.MaxUint64, nil})
	} else {
		oldest := vs[len(vs)-1].Ts
		if oldest > 0 {
			segs = append(segs, seg{0, oldest - 1, nil})
		}
		for i := len(vs) - 1; i >= 0; i-- {
			hi := uint64(math.MaxUint64)
			if i > 0 {
				hi = vs[i-1].Ts - 1
			}
			v := vs[i]
			segs = append(segs, seg{v.Ts, hi, &v})
		}
	}
	for _, s := range segs {
		visible := s.v != nil && !s.v.Dead(now) && (since == 0 || s.v.Ts > since)
		switch {
		case !visible && len(got) == 0:
			out = append(out, ival{s.lo, s.hi})
		case visible && len(got) == 1:
			g := got[0]
			wv := s.v.Value()
			if g.Version == s.v.Ts && g.Len == len(wv) && g.Sum == hist.Sum8(wv) && g.Meta == s.v.UserMeta && g.Expires == s.v.ExpiresAt {
				out = append(out, ival{s.lo, s.hi})
			}
		}
	}
	return out
}

// checkStream decides one stream run against the final model.
func checkStream(c *core.Ctx, sig string, h *hist.History, m *model.DB, sr *streamRun, info map[string]any) {
	now := uint64(time.Now().Unix())
	if sr.Err != "" {
		c.Violation(sig+"|orchestrate-error", sr.Err, info)
		return
	}
	if sr.MaxSend > 1 {
		c.Violation(sig+"|concurrent-send", fmt.Sprintf("Send was running %d times concurrently", sr.MaxSend), info)
	}
	var s0 uint64
	for _, t := range h.Txns {
		if t.CommitTs != 0 && t.CommitRet < sr.Call && t.CommitTs > s0 {
			s0 = t.CommitTs
		}
	}
	byKey := map[string][]streamKV{}
	for _, kv := range sr.KVs {
		byKey[kv.Key] = append(byKey[kv.Key], kv)
	}
	adm := []ival{{s0, math.MaxUint64}}
	type keyAdm struct {
		k string
		a []ival
	}
	var per []keyAdm
	keys := m.Keys()
	for k := range byKey {
		if _, ok := m.M[k]; !ok {
			c.Violation(sig+"|unknown-key", fmt.Sprintf("stream delivered key %x which was never written", k), info)
			return
		}
	}
	for _, k := range keys {
		inScope := bytes.HasPrefix([]byte(k), sr.Prefix) && (!sr.Choose || chosen(k))
		got := byKey[k]
		if !inScope {
			if len(got) > 0 {
				c.Violation(sig+"|out-of-scope-key", fmt.Sprintf("stream delivered key %x outside its Prefix/ChooseKey", k), info)
			}
			continue
		}
		if len(got) > 1 {
			c.Violation(sig+"|duplicate-key", fmt.Sprintf("key %x was delivered %d times (versions %d, %d)", k, len(got), got[0].Version, got[1].Version), info)
			return
		}
		a := admissible(m, k, got, sr.Since, now)
		if len(a) == 0 {
			w := map[string]any{"info": info, "key": fmt.Sprintf("%x", k), "delivered": fmt.Sprintf("%+v", got)}
			c.Violation(sig+"|no-snapshot-explains-key", fmt.Sprintf("no timestamp explains what the stream delivered for key %x (delivered %d KVs)", k, len(got)), w)
			return
		}
		per = append(per, keyAdm{k, a})
		adm2 := intersect(adm, a)
		if len(adm2) == 0 {
			// find a witness pair: a previous key whose own set is disjoint from this one within [s0, inf)
			w := map[string]any{"info": info, "s0_last_acked_commit_before_orchestrate": s0, "key": fmt.Sprintf("%x", k), "key_admissible": fmt.Sprint(a), "admissible_so_far": fmt.Sprint(adm)}
			for _, p := range per[:len(per)-1] {
				if len(intersect(intersect(p.a, a), []ival{{s0, math.MaxUint64}})) == 0 {
					w["conflicting_key"] = fmt.Sprintf("%x", p.k)
					w["conflicting_key_admissible"] = fmt.Sprint(p.a)
					break
				}
			}
			c.Violation(sig+"|no-single-snapshot", fmt.Sprintf("the delivered versions are not those of one snapshot taken at or after the run started: key %x needs s in %v, the keys before it need s in %v (s0=%d)", k, a, adm, s0), w)
			return
		}
		adm = adm2
	}
	c.Count("stream.runs_explained_by_one_snapshot", 1)
}

// c25Layout: quiescent databases with few, small tables and non-empty memtables whose key ranges are
// ordered in every way relative to the tables (Stream splits its work by table and memtable split
// keys); every visible key must be delivered exactly once with its newest version, for any NumGo.
func c25Layout(c *core.Ctx, work string, idx int) {
	r := c.Rand(fmt.Sprintf("c25-layout-%d", idx))
	dir := filepath.Join(work, fmt.Sprintf("layout%d", idx))
	_ = os.MkdirAll(dir, 0o755)
	defer os.RemoveAll(dir)
	opt, name := drvOptions(dir, []int{0, 2, 3}[idx%3])
	opt.MemTableSize = 1 << 20
	opt.BaseTableSize = 64 << 10
	opt.NumVersionsToKeep = 1
	db, err := drv.Open(opt, false)
	if err != nil {
		c.Inconclusive("open: " + err.Error())
		return
	}
	w := &drv.World{C: c, Sig: "C25|layout", DB: db, Opt: opt, M: model.New(), R: r, Keys: gen.KeySet(r, 60+r.Intn(100), 8)}
	defer func() { _ = w.DB.Close() }()
	w.Locality = 5 + r.Intn(30)
	phases := 2 + r.Intn(4)
	manyTables := idx%2 == 1
	if manyTables {
		// many small, mostly disjoint tables on the base level, written at different times (their
		// maximum versions differ, which is what SinceTs filters tables by)
		w.Locality, w.NoWide = 3+r.Intn(4), true
		phases = 8 + r.Intn(8)
	}
	for p := 0; p < phases; p++ {
		for i := 0; i < 10+r.Intn(60); i++ {
			_ = w.RandomCommit(0.1, 0.1)
		}
		if p < phases-1 {
			w.Flush() // moves the window: the next table / the final memtable covers another key range
			if manyTables || r.Intn(2) == 0 {
				w.CompactForce(0, 1)
			}
		}
	}
	now := uint64(time.Now().Unix())
	want := map[string]model.Ver{}
	for _, k := range w.M.Keys() {
		if v, ok := w.M.Visible(k, ^uint64(0), now); ok {
			want[k] = v
		}
	}
	var clock atomic.Int64
	for _, numGo := range []int{1, 2, 8} {
		var sr *streamRun
		if numGo == 1 {
			// the first stream finds the newest writes in the memtable; it is flushed at the very
			// moment the first producer pins the memtables for its iterator
			if w.FlushAtPin(func() { sr = runStream(db, &clock, numGo, nil, 0, false) }) > 0 {
				c.Count("stream.flushes_while_a_producer_opened_its_iterator", 1)
			}
		} else {
			sr = runStream(db, &clock, numGo, nil, 0, false)
		}
		c.Eval(1)
		info := map[string]any{"options": name, "numGo": numGo, "tables": w.Witness()["tables"], "kvs": len(sr.KVs)}
		if sr.Err != "" {
			c.Violation("C25|layout|stream-error", sr.Err, info)
			continue
		}
		seen := map[string]int{}
		for _, kv := range sr.KVs {
			seen[kv.Key]++
			v, ok := want[kv.Key]
			switch {
			case !ok:
				c.Violation("C25|layout|delivered-invisible-key", fmt.Sprintf("key %x@%d delivered but not visible", kv.Key, kv.Version), info)
			case v.Ts != kv.Version:
				c.Violation("C25|layout|wrong-version", fmt.Sprintf("key %x delivered at version %d, newest visible is %d", kv.Key, kv.Version, v.Ts), info)
			}
		}
		for k, n := range seen {
			if n > 1 {
				c.Violation("C25|layout|duplicate-key", fmt.Sprintf("key %x was delivered %d times by a stream over a quiescent database", k, n), info)
				break
			}
		}
		for k := range want {
			if seen[k] == 0 {
				c.Violation("C25|layout|missing-key", fmt.Sprintf("visible key %x was not delivered", k), info)
				break
			}
		}
		c.Count("stream.layout_runs", 1)
		c.Count("stream.kvs_delivered", int64(len(sr.KVs)))
	}
	if os.Getenv("VERIF_DEBUG") != "" {
		fmt.Println("DEBUG layout tables:", w.Witness()["tables"])
	}
	// incremental streams (SinceTs somewhere inside the version range, with and without a prefix),
	// two runs each on the same quiescent database: exactly the visible keys newer than SinceTs
	maxTs := w.M.MaxTs()
	for rep := 0; rep < 4 && maxTs > 2; rep++ {
		since := 1 + uint64(r.Int63n(int64(maxTs-1)))
		var prefix []byte
		if rep%2 == 0 {
			prefix = []byte{[]byte{0x00, 'a', 'b', 0xFF}[r.Intn(4)]}
		}
		for _, numGo := range []int{1, 4} {
			sr := runStream(db, &clock, numGo, prefix, since, false)
			c.Eval(1)
			info := map[string]any{"options": name, "numGo": numGo, "prefix": fmt.Sprintf("%x", prefix), "since": since, "tables": w.Witness()["tables"], "kvs": len(sr.KVs)}
			seen := map[string]int{}
			for _, kv := range sr.KVs {
				seen[kv.Key]++
			}
			for k, n := range seen {
				v, ok := want[k]
				switch {
				case n > 1:
					c.Violation("C25|layout|since|duplicate-key", fmt.Sprintf("key %x was delivered %d times by an incremental stream (SinceTs %d, prefix %x) over a quiescent database", k, n, since, prefix), info)
				case !ok || v.Ts <= since || !bytes.HasPrefix([]byte(k), prefix):
					c.Violation("C25|layout|since|unexpected-key", fmt.Sprintf("key %x delivered by an incremental stream (SinceTs %d, prefix %x) although it is not a visible key newer than SinceTs under the prefix", k, since, prefix), info)
				}
			}
			for k, v := range want {
				if v.Ts > since && bytes.HasPrefix([]byte(k), prefix) && seen[k] == 0 {
					c.Violation("C25|layout|since|missing-key", fmt.Sprintf("visible key %x@%d (newer than SinceTs %d, prefix %x) was not delivered", k, v.Ts, since, prefix), info)
					break
				}
			}
			c.Count("stream.layout_since_runs", 1)
		}
	}
	// and the plain stream must still be complete afterwards
	sr := runStream(db, &clock, 2, nil, 0, false)
	seenAfter := map[string]int{}
	for _, kv := range sr.KVs {
		seenAfter[kv.Key]++
	}
	for k := range want {
		if seenAfter[k] != 1 {
			c.Violation("C25|layout|after-incremental-streams", fmt.Sprintf("after the incremental streams a plain stream delivered visible key %x %d times", k, seenAfter[k]), map[string]any{"options": name})
			break
		}
	}
	c.Distinct(fmt.Sprintf("layout|%s|phases=%d|tables=%d", name, phases, min(len(db.Tables()), 5)))
}

// C25 a Stream run emits one consistent snapshot, each key exactly once.
func C25(c *core.Ctx) {
	c.Rule("a recorded concurrent history (8 committers, marker-resolved commit timestamps) runs while the main goroutine performs Stream runs with NumGo 1..16, with and " +
		"without Prefix, ChooseKey and SinceTs, over data spread by tiny memtables/tables so that Ranges yields many splits, with delays at stream.beforeTxn / stream.range; " +
		"Send records every KV and the maximum number of concurrent Send calls; oracle: per key the set of snapshot timestamps that explain what was delivered (or not " +
		"delivered) is computed from the final model, and the intersection over all chosen keys with [last commit acknowledged before Orchestrate, inf) must be non-empty; each " +
		"key at most once; nothing outside Prefix/ChooseKey; plus quiescent layout cases (few small tables, memtables covering lower/higher/overlapping key ranges) streamed with NumGo 1/2/8: every visible key exactly once at its newest version, then incremental streams (SinceTs inside the version range, with and without Prefix) deliver exactly the visible keys newer than SinceTs, and a final plain stream is still complete; distinct = (options, NumGo, prefix/choose/since, commits-overlapped) classes")
	work := c.WorkDir()
	defer os.RemoveAll(work)
	idx := 0
	for round := 0; round < c.Pick(1, 5); round++ {
		for _, v := range []int{0, 1, 6, 3} {
			idx++
			var runs []*streamRun
			var engine *hist.Engine
			var dbh *badger.DB
			cfg := sched.Config{Prob: 0.05, MaxSleep: 2 * time.Millisecond, ProbBy: map[string]float64{"stream.beforeTxn": 0.9, "stream.range": 0.5, "commit.afterTs": 0.1}}
			hr := HistRun{Variant: v, Sched: cfg, NKeys: 40, MaxKey: 8,
				Mix: func(keys [][]byte) hist.Mix {
					m := hist.DefaultMix(keys)
					m.Clients = 8
					m.TxnsPerClient = c.Pick(260, 500)
					m.ROFrac = 0.1
					m.IterFrac = 0.05
					m.HeldFrac = 0
					m.DeleteFrac = 0.15
					m.ExpireFrac = 0.2
					m.ValSizes = []int{24, 64, 65, 300}
					return m
				}}
			// the streams run concurrently with the engine: start them from a goroutine once the DB exists
			stop := make(chan struct{})
			var wg sync.WaitGroup
			hr.Tweak = func(o *badger.Options) { o.NumGoroutines = 8; o.NumVersionsToKeep = 1 }
			hr.OnStart = func(db *badger.DB, e *hist.Engine) {
				engine, dbh = e, db
				wg.Add(1)
				go func() {
					defer wg.Done()
					r := c.Rand(fmt.Sprintf("c25-streams-%d", idx))
					for {
						select {
						case <-stop:
							return
						default:
						}
						time.Sleep(time.Duration(2+r.Intn(10)) * time.Millisecond)
						numGo := []int{1, 2, 4, 8, 16}[r.Intn(5)]
						var prefix []byte
						var since uint64
						choose := false
						switch r.Intn(6) {
						case 1:
							prefix = []byte{[]byte{0x00, 'a', 'b', 0xFF}[r.Intn(4)]}
						case 2:
							choose = true
						case 3:
							since = uint64(1 + r.Intn(50))
						case 4: // incremental stream of a prefix
							prefix = []byte{[]byte{0x00, 'a', 'b', 0xFF}[r.Intn(4)]}
							since = uint64(1 + r.Intn(400))
						case 5:
							choose = true
							since = uint64(1 + r.Intn(400))
						}
						runs = append(runs, runStream(dbh, &engine.Clock, numGo, prefix, since, choose))
					}
				}()
			}
			hr.BeforeResolve = func() { close(stop); wg.Wait() }
			res, err := runHistory(c, work, idx, hr)
			if err != nil {
				c.Inconclusive(err.Error())
				continue
			}
			// one more stream on the quiescent DB
			runs = append(runs, runStream(res.DB, &res.Engine.Clock, 4, nil, 0, false))
			reportProbs(c, "C25", res.Probs, res.Name)
			hist.CheckReads(c, "C25|background-history", res.H, res.M)
			for i, sr := range runs {
				c.Eval(1)
				overl := 0
				for _, t := range res.H.Txns {
					if t.CommitTs != 0 && t.CommitCall < sr.Ret && t.CommitRet > sr.Call {
						overl++
					}
				}
				c.Count("stream.commits_overlapping_runs", int64(overl))
				c.Count("stream.kvs_delivered", int64(len(sr.KVs)))
				info := map[string]any{"options": res.Name, "run": i, "numGo": sr.NumGo, "prefix": fmt.Sprintf("%x", sr.Prefix), "since": sr.Since, "choose": sr.Choose, "kvs": len(sr.KVs), "commits_overlapping": overl}
				checkStream(c, "C25", res.H, res.M, sr, info)
				c.Distinct(fmt.Sprintf("%s|go=%d|prefix=%v|choose=%v|since=%v|overlap=%v", res.Name, sr.NumGo, len(sr.Prefix) > 0, sr.Choose, sr.Since > 0, overl > 0))
				if i == 0 && idx <= 2 {
					var ex []string
					for _, kv := range sr.KVs[:min(len(sr.KVs), 6)] {
						ex = append(ex, fmt.Sprintf("%x@%d", kv.Key, kv.Version))
					}
					info["first_kvs"] = ex
					c.Sample(info)
				}
			}
			addSchedCoverage(c, res.S)
			_ = res.DB.Close()
			_ = os.RemoveAll(res.Dir)
		}
	}
	for i := 0; i < c.Pick(20, 200); i++ {
		c25Layout(c, work, i)
	}
	if c.Counter("stream.commits_overlapping_runs") == 0 {
		c.Inconclusive("no stream run overlapped a commit")
	}
	c.CheckRaces(nil, "", "")
	c.Assume("default KeyToList (ToList) with NumVersionsToKeep=1: one KV per visible key; the snapshot must be at or after the last commit acknowledged before Orchestrate was called")
}

var _ = pb.KV{}
var _ = sort.Strings
