package props

import (
	"bytes"
	"crypto/rand"
	"encoding/hex"
	"errors"
	"fmt"
	"io/fs"
	mrand "math/rand"
	"os"
	"os/exec"
	"path/filepath"
	"sync"
	"time"

	badger "github.com/dgraph-io/badger/v4"

	"verif/h/core"
	"verif/h/drv"
	"verif/h/gen"
	"verif/h/model"
	"verif/h/sched"
)

type needleSet map[[12]byte]string

func (n needleSet) addValue(v []byte, what string) {
	if len(v) >= 24 {
		var k [12]byte
		copy(k[:], v[8:20])
		n[k] = what
	}
}

func (n needleSet) addKey(k []byte) {
	if len(k) >= 14 {
		var x [12]byte
		copy(x[:], k[2:14])
		n[x] = "key " + hex.EncodeToString(k)
	}
}

// scanDir looks for any needle in any file under dir.
func scanDir(dir string, n needleSet) (hits []string, bytesScanned int64) {
	_ = filepath.WalkDir(dir, func(p string, de fs.DirEntry, err error) error {
		if err != nil || de.IsDir() {
			return nil
		}
		b, err := os.ReadFile(p)
		if err != nil {
			return nil
		}
		bytesScanned += int64(len(b))
		var k [12]byte
		for i := 0; i+12 <= len(b); i++ {
			copy(k[:], b[i:i+12])
			if what, ok := n[k]; ok {
				hits = append(hits, fmt.Sprintf("%s offset %d: %s", filepath.Base(p), i, what))
				if len(hits) > 5 {
					return fs.SkipAll
				}
			}
		}
		return nil
	})
	return
}

func copyDir(src, dst string) {
	_ = os.MkdirAll(dst, 0o755)
	ents, _ := os.ReadDir(src)
	for _, e := range ents {
		if e.IsDir() {
			continue
		}
		b, err := os.ReadFile(filepath.Join(src, e.Name()))
		if err == nil {
			_ = os.WriteFile(filepath.Join(dst, e.Name()), b, 0o644)
		}
	}
}

// C23 encryption at rest.
func C23(c *core.Ctx) {
	c.Rule("(i) twin runs of one pre-drawn script (transactions, batches, flush, compactions, drops) on an encrypted (AES-128/192/256, data-key rotation 1 ms .. 10 days) and a " +
		"plain database must read identically and equal the model; (ii) every value (>=24 bytes of PRF output) and every long user key contributes a 12-byte needle; at mid-run " +
		"copies of the directory, at the end and after re-open no file may contain a needle (compression off); (iii) a hook logs (data key id, IV) for every encrypted log record " +
		"and table block/index: no pair may repeat, also across re-opens; (iv) re-opening with a different key, with no key, or a plain database with a key fails with " +
		"ErrEncryptionKeyMismatch and leaves the file tree hash unchanged; (v) data written under earlier data keys stays readable after re-open, and after master-key rotation " +
		"with the built 'badger rotate' command the new key opens the database and the old one is refused; (vi) crash images: an encrypted workload child (E2 engine) is SIGKILLed at " +
		"random hook events and the directory is scanned for the needles of every value whose transaction had been issued, before anything re-opens it; distinct = (key length, rotation interval, sub-check) classes")
	work := c.WorkDir()
	defer os.RemoveAll(work)
	var mu sync.Mutex
	ivs := map[string]int{}
	dupIV := ""
	var nIV int64
	sched.Install(sched.Config{OnEvB: func(name string, keyID uint64, iv []byte) {
		mu.Lock()
		nIV++
		k := fmt.Sprintf("%d|%x", keyID, iv)
		ivs[k]++
		if ivs[k] > 1 && dupIV == "" {
			dupIV = fmt.Sprintf("%s data key %d IV %x used %d times", name, keyID, iv, ivs[k])
		}
		mu.Unlock()
	}})
	defer sched.Uninstall()
	n := c.Pick(10, 80)
	for i := 0; i < n; i++ {
		seed := c.SubSeed(fmt.Sprintf("c23-%d", i))
		r := mrand.New(mrand.NewSource(seed))
		keys := gen.KeySet(r, 10+r.Intn(12), 7)
		for j := 0; j < 8; j++ {
			keys = append(keys, []byte(fmt.Sprintf("sk%08x%08x", r.Uint32(), r.Uint32())))
		}
		script := genScript(r, keys, c.Pick(200, 350), []int{24, 40, 64, 65, 300, 1500}, true)
		keyLen := []int{16, 24, 32}[i%3]
		master := make([]byte, keyLen)
		_, _ = rand.Read(master)
		rot := []time.Duration{time.Millisecond, time.Second, 240 * time.Hour}[i%3]
		var logs [2][][]string
		needles := needleSet{}
		var encDir string
		var encOpt badger.Options
		var encModel *model.DB
		for side := 0; side < 2; side++ {
			dir := filepath.Join(work, fmt.Sprintf("e%d-%d", i, side))
			_ = os.MkdirAll(dir, 0o755)
			opt, _ := drvOptions(dir, 0)
			opt.MemTableSize = 64 << 10
			if side == 0 {
				opt.EncryptionKey = master
				opt.EncryptionKeyRotationDuration = rot
				opt.IndexCacheSize = 4 << 20
				encDir, encOpt = dir, opt
			}
			db, err := badger.Open(opt)
			if err != nil {
				c.Inconclusive("open: " + err.Error())
				continue
			}
			w := &drv.World{C: c, Sig: "C23|" + []string{"encrypted", "plain"}[side], DB: db, Opt: opt, M: model.New(), R: mrand.New(mrand.NewSource(1)), Keys: keys}
			if side == 0 {
				// run the script in three parts and scan a copy of the directory in between
				third := len(script) / 3
				for part := 0; part < 3; part++ {
					lo, hi := part*third, (part+1)*third
					if part == 2 {
						hi = len(script)
					}
					logs[side] = append(logs[side], execScript(c, w, script[lo:hi])...)
					for k, vs := range w.M.M {
						needles.addKey([]byte(k))
						for _, v := range vs {
							if !v.Del {
								needles.addValue(v.Value(), fmt.Sprintf("value of %x@%d", k, v.Ts))
							}
						}
					}
					cp := filepath.Join(work, fmt.Sprintf("copy%d-%d", i, part))
					copyDir(dir, cp)
					hits, nb := scanDir(cp, needles)
					c.Count("enc.bytes_scanned", nb)
					_ = os.RemoveAll(cp)
					if len(hits) > 0 {
						c.Violation("C23|plaintext-on-disk|mid-run", "plaintext of user data found in a file of an encrypted database: "+hits[0], map[string]any{"hits": hits})
					}
				}
				encModel = w.M
			} else {
				logs[side] = execScript(c, w, script)
			}
			_ = w.DB.Close()
			if side == 1 {
				_ = os.RemoveAll(dir)
			}
		}
		c.Eval(1)
		c.Count("enc.needles", int64(len(needles)))
		if d := diffLogs(logs[0], logs[1]); d != "" && c.Violations() == 0 {
			c.Violation("C23|twin-differs", "encrypted and plain runs of the same history read differently: "+d, map[string]any{"seed": seed})
		}
		hits, nb := scanDir(encDir, needles)
		c.Count("enc.bytes_scanned", nb)
		if len(hits) > 0 {
			c.Violation("C23|plaintext-on-disk|after-close", "plaintext of user data found in a file of an encrypted database: "+hits[0], map[string]any{"hits": hits})
		}
		// (iv) wrong key / no key
		h0, _ := treeHash(encDir)
		wrong := append([]byte{}, master...)
		wrong[0] ^= 0x55
		for _, tc := range []struct {
			name string
			key  []byte
		}{{"different-key", wrong}, {"no-key", nil}} {
			o := encOpt
			o.EncryptionKey = tc.key
			db, err := badger.Open(o)
			if err == nil {
				_ = db.Close()
				c.Violation("C23|wrong-key-accepted|"+tc.name, "an encrypted database opened with "+tc.name, nil)
			} else if !errors.Is(err, badger.ErrEncryptionKeyMismatch) {
				c.Violation("C23|wrong-key-error|"+tc.name, fmt.Sprintf("opening with %s failed with %v instead of ErrEncryptionKeyMismatch", tc.name, err), nil)
			}
			c.Count("enc.wrong_key_opens", 1)
		}
		if h1, names := treeHash(encDir); h1 != h0 {
			c.Violation("C23|wrong-key-changed-files", "a refused open changed the files of the database", map[string]any{"files": names})
		}
		// (v) re-open with the right key: data under earlier data keys readable
		db, err := badger.Open(encOpt)
		if err != nil {
			c.Violation("C23|reopen", err.Error(), nil)
		} else {
			w := &drv.World{C: c, Sig: "C23|after-reopen", DB: db, Opt: encOpt, M: encModel, R: r, Keys: keys}
			w.CheckInvariance("reopen")
			_ = w.Commit
			_, _ = w.Commit([]drv.WriteSpec{{Key: keys[0], Len: 100}})
			_ = db.Close()
			hits, _ := scanDir(encDir, needles)
			if len(hits) > 0 {
				c.Violation("C23|plaintext-on-disk|after-reopen", "plaintext found after re-open: "+hits[0], nil)
			}
			if i%3 == 0 {
				c23Rotate(c, work, encDir, encOpt, encModel, master)
			}
		}
		_ = os.RemoveAll(encDir)
		c.Distinct(fmt.Sprintf("keylen=%d|rotation=%s", keyLen, rot))
		if i < 2 {
			c.Sample(map[string]any{"seed": seed, "key_len": keyLen, "rotation": rot.String(), "needles": len(needles)})
		}
	}
	// a plain database opened with a key
	{
		dir := filepath.Join(work, "plainkey")
		_ = os.MkdirAll(dir, 0o755)
		opt, _ := drvOptions(dir, 0)
		if db, err := badger.Open(opt); err == nil {
			_ = db.Update(func(txn *badger.Txn) error { return txn.Set([]byte("k"), []byte("v")) })
			_ = db.Close()
			h0, _ := treeHash(dir)
			opt.EncryptionKey = bytes.Repeat([]byte{7}, 16)
			opt.IndexCacheSize = 1 << 20
			if db2, err := badger.Open(opt); err == nil {
				_ = db2.Close()
				c.Violation("C23|wrong-key-accepted|key-on-plain-db", "a plain database opened with an encryption key", nil)
			} else if !errors.Is(err, badger.ErrEncryptionKeyMismatch) {
				c.Violation("C23|wrong-key-error|key-on-plain-db", fmt.Sprintf("got %v instead of ErrEncryptionKeyMismatch", err), nil)
			}
			if h1, _ := treeHash(dir); h1 != h0 {
				c.Violation("C23|wrong-key-changed-files", "a refused open changed the files of a plain database", nil)
			}
			c.Distinct("key-on-plain-db")
		}
	}
	mu.Lock()
	c.Count("enc.iv_events", nIV)
	c.Count("enc.distinct_key_iv_pairs", int64(len(ivs)))
	if dupIV != "" {
		c.Violation("C23|iv-reuse", "a (data key, IV) pair was used for two encrypted records or blocks: "+dupIV, nil)
	}
	mu.Unlock()
	if nIV == 0 {
		c.Inconclusive("no IV events observed")
	}
	c23CrashScan(c, work)
	c.Assume("needles are 12-byte windows of PRF output / random key bytes, so a chance match is negligible; compression is off so plaintext would appear verbatim")
}

func c23Rotate(c *core.Ctx, work, dir string, opt badger.Options, m *model.DB, oldKey []byte) {
	bin := filepath.Join(work, "badger-cli")
	if _, err := os.Stat(bin); err != nil {
		cmd := exec.Command("go", "build", "-o", bin, "./badger")
		cmd.Dir = repoDir()
		if out, err := cmd.CombinedOutput(); err != nil {
			c.Inconclusive("cannot build the badger command: " + string(out))
			return
		}
	}
	newKey := make([]byte, len(oldKey))
	_, _ = rand.Read(newKey)
	of, nf := filepath.Join(work, "old.key"), filepath.Join(work, "new.key")
	_ = os.WriteFile(of, oldKey, 0o600)
	_ = os.WriteFile(nf, newKey, 0o600)
	cmd := exec.Command(bin, "rotate", "--dir", dir, "--old-key-path", of, "--new-key-path", nf)
	if out, err := cmd.CombinedOutput(); err != nil {
		c.Violation("C23|rotate|command-failed", fmt.Sprintf("badger rotate failed: %v %s", err, out), nil)
		return
	}
	c.Count("enc.master_key_rotations", 1)
	o := opt
	o.EncryptionKey = oldKey
	if db, err := badger.Open(o); err == nil {
		_ = db.Close()
		c.Violation("C23|rotate|old-key-still-accepted", "after master-key rotation the old key still opens the database", nil)
	} else if !errors.Is(err, badger.ErrEncryptionKeyMismatch) {
		c.Violation("C23|rotate|old-key-error", fmt.Sprintf("old key refused with %v instead of ErrEncryptionKeyMismatch", err), nil)
	}
	o.EncryptionKey = newKey
	db, err := badger.Open(o)
	if err != nil {
		c.Violation("C23|rotate|new-key-refused", "after master-key rotation the new key cannot open the database: "+err.Error(), nil)
		return
	}
	w := &drv.World{C: c, Sig: "C23|after-master-rotation", DB: db, Opt: o, M: m, R: mrand.New(mrand.NewSource(1))}
	w.CheckInvariance("rotate")
	_ = db.Close()
	c.Distinct("master-key-rotation")
}

// c23CrashScan: what a kill leaves on disk must not contain plaintext either (WAL tails, value-log
// tails, half-built tables, MANIFEST-REWRITE ...).
func c23CrashScan(c *core.Ctx, work string) {
	cfgs := []crashConfig{{"aes128+gc", 3, "gc", false, 4, 60, 0}, {"aes256+snappy-off", 5, "deletes", false, 4, 60, 0}, {"aes192", 9, "plain", false, 4, 60, 0}}
	r := c.Rand("c23-crash")
	for i := 0; i < c.Pick(8, 60); i++ {
		cfg := cfgs[i%len(cfgs)]
		s, specPath := newCrashSpec(c, work, cfg, i, fmt.Sprintf("encrash%d", i))
		s.KillAt = int64(100 + r.Intn(2500))
		opt := s.options()
		if len(opt.EncryptionKey) == 0 {
			os.RemoveAll(filepath.Dir(specPath))
			continue
		}
		// compression would hide plaintext from a byte scan
		writeSpec(s, specPath)
		out, timedOut, _ := runChild(90*time.Second, nil, c.ID, "--child-crash", specPath)
		if timedOut {
			c.Inconclusive("encrypted workload child timed out: " + tailStr(out, 200))
			os.RemoveAll(filepath.Dir(specPath))
			continue
		}
		si := parseSideLog(s.SideLog)
		needles := needleSet{}
		keys := crashKeys(s.Seed)
		for id := range si.issued {
			var cl, sq int
			fmt.Sscanf(id, "%d %d", &cl, &sq)
			for _, o := range crashTxn(s, keys, cl, sq) {
				if !o.Del {
					needles.addValue(gen.Expand(o.Tok, o.Size), "value "+o.Tok)
				}
			}
		}
		hits, nb := scanDir(s.Dir, needles)
		c.Eval(1)
		c.Count("enc.crash_images_scanned", 1)
		c.Count("enc.crash_bytes_scanned", nb)
		c.Count("enc.crash_needles", int64(len(needles)))
		if len(hits) > 0 {
			c.Violation("C23|crash-image|plaintext-on-disk", fmt.Sprintf("after a kill at %s the directory contains plaintext of written values: %v", si.killed, hits), map[string]any{"config": cfg.name, "killed_at": si.killed, "files": listDir(s.Dir)})
		}
		c.Distinct("crash-image|" + cfg.name + "|" + si.killed)
		os.RemoveAll(filepath.Dir(specPath))
	}
}

// repoDir is the badger tree the harness was built against (/repo unless a background sweep froze a snapshot).
func repoDir() string {
	if d := os.Getenv("VERIF_REPO"); d != "" {
		return d
	}
	return "/repo"
}
