// Package props holds the per-property checks built on the engines.
package props

import (
	"fmt"
	"math/rand"
	"os"
	"path/filepath"
	"sync"
	"sync/atomic"
	"time"

	badger "github.com/dgraph-io/badger/v4"

	"verif/h/core"
	"verif/h/gen"
	"verif/h/hist"
	"verif/h/model"
	"verif/h/sched"
)

// HistRun is the configuration of one recorded history.
type HistRun struct {
	Variant  int
	Managed  bool
	Mix      func(keys [][]byte) hist.Mix
	NKeys    int
	MaxKey   int
	Sched    sched.Config
	GC       bool // run RunValueLogGC in the background
	Pin      bool // hold a transaction opened before the workload (pins the discard watermark)
	Tweak    func(o *badger.Options)
	Reopen   bool // close and re-open before resolving/checking
	AfterRun func(db *badger.DB)
	// OnStart is called after the DB is open and before the clients start.
	OnStart func(db *badger.DB, e *hist.Engine)
	// BeforeResolve is called after the clients finished, before commit timestamps are resolved.
	BeforeResolve func()
}

// HistResult is what runHistory returns.
type HistResult struct {
	H      *hist.History
	M      *model.DB
	Name   string
	S      *sched.Sched
	GCRuns int64
	GCOK   int64
	Probs  []string
	Opt    badger.Options
	DB     *badger.DB // still open; caller must Close
	Dir    string
	Engine *hist.Engine
}

func openDB(o badger.Options, managed bool) (*badger.DB, error) {
	if managed {
		return badger.OpenManaged(o)
	}
	return badger.Open(o)
}

// runHistory runs one history and resolves commit timestamps. The DB is left open.
func runHistory(c *core.Ctx, work string, idx int, hr HistRun) (*HistResult, error) {
	r := c.Rand(fmt.Sprintf("hist-%d", idx))
	dir := filepath.Join(work, fmt.Sprintf("h%d", idx))
	_ = os.RemoveAll(dir)
	_ = os.MkdirAll(dir, 0o755)
	ov := hist.SmallOptions(dir, hr.Variant, r)
	if hr.Tweak != nil {
		hr.Tweak(&ov.Opt)
	}
	db, err := openDB(ov.Opt, hr.Managed)
	if err != nil {
		return nil, fmt.Errorf("open (%s): %w", ov.Name, err)
	}
	cfg := hr.Sched
	cfg.Seed = r.Int63()
	s := sched.Install(cfg)
	nk := hr.NKeys
	if nk == 0 {
		nk = 24
	}
	mk := hr.MaxKey
	if mk == 0 {
		mk = 8
	}
	keys := gen.KeySet(r, nk, mk)
	mix := hr.Mix(keys)
	e := &hist.Engine{DB: db, Managed: hr.Managed, Mix: mix, Seed: r.Int63()}
	res := &HistResult{Name: ov.Name, S: s, Opt: ov.Opt, Dir: dir, Engine: e}
	var pin *badger.Txn
	if hr.Pin {
		if hr.Managed {
			pin = db.NewTransactionAt(1, false)
		} else {
			pin = db.NewTransaction(false)
		}
	}
	stop := make(chan struct{})
	var bg sync.WaitGroup
	var gcRuns, gcOK atomic.Int64
	if hr.GC && !ov.Opt.InMemory {
		bg.Add(1)
		go func() {
			defer bg.Done()
			rr := rand.New(rand.NewSource(cfg.Seed))
			for {
				select {
				case <-stop:
					return
				case <-time.After(time.Duration(5+rr.Intn(20)) * time.Millisecond):
				}
				gcRuns.Add(1)
				if err := db.RunValueLogGC([]float64{0.001, 0.1, 0.5, 0.9}[rr.Intn(4)]); err == nil {
					gcOK.Add(1)
				}
			}
		}()
	}
	if hr.OnStart != nil {
		hr.OnStart(db, e)
	}
	res.H = e.Run()
	close(stop)
	bg.Wait()
	if hr.BeforeResolve != nil {
		hr.BeforeResolve()
	}
	if pin != nil {
		pin.Discard()
	}
	if hr.AfterRun != nil {
		hr.AfterRun(db)
	}
	res.GCRuns, res.GCOK = gcRuns.Load(), gcOK.Load()
	if hr.Reopen && !ov.Opt.InMemory {
		if err := db.Close(); err != nil {
			sched.Uninstall()
			return nil, fmt.Errorf("close: %w", err)
		}
		db, err = openDB(ov.Opt, hr.Managed)
		if err != nil {
			sched.Uninstall()
			return nil, fmt.Errorf("re-open: %w", err)
		}
	}
	sched.Uninstall()
	res.DB = db
	res.Probs = res.H.Resolve(db, hr.Managed)
	res.M = res.H.BuildModel(nil)
	return res, nil
}

// addSchedCoverage copies hook counters into the evidence.
func addSchedCoverage(c *core.Ctx, s *sched.Sched) {
	pts, delays, evs := s.Counts()
	for k, v := range pts {
		c.Count("point."+k, v)
	}
	for k, v := range delays {
		c.Count("delay."+k, v)
	}
	for k, v := range evs {
		c.Count("ev."+k, v)
	}
	c.Count("readts_grants", s.Grants.Load())
	c.Count("readts_grants_while_commit_in_flight", s.ReadsOverlappingCommit.Load())
}

func reportProbs(c *core.Ctx, sigPrefix string, probs []string, info any) {
	for _, p := range probs {
		kind := "marker"
		for _, k := range []string{"lost-commit", "rejected-trace", "managed-ts"} {
			if len(p) >= len(k) && p[:len(k)] == k {
				kind = k
			}
		}
		c.Violation(sigPrefix+"|"+kind, p, info)
	}
}

func addReadStats(c *core.Ctx, st hist.Stats) {
	c.Count("reads.gets", st.Gets)
	c.Count("reads.gets_found", st.GetsFound)
	c.Count("reads.gets_own_write", st.GetsOwn)
	c.Count("reads.iterators", st.Iters)
	c.Count("reads.iterator_items", st.IterItems)
	for k, v := range st.ByPath {
		c.Count("path."+k, v)
	}
}

func histSample(res *HistResult) map[string]any {
	n, committed, conflicts := 0, 0, 0
	for _, t := range res.H.Txns {
		n++
		if t.CommitTs != 0 {
			committed++
		}
		if t.CommitErr != "" {
			conflicts++
		}
	}
	s := map[string]any{"options": res.Name, "txns": n, "committed": committed, "commit_errors": conflicts, "model_keys": len(res.M.M)}
	for _, t := range res.H.Txns {
		if t.Update && len(t.Reads) > 0 && len(t.Writes) > 1 {
			var ops []string
			for _, rr := range t.Reads {
				if rr.Kind == "get" {
					ops = append(ops, fmt.Sprintf("get(%x)->found=%v v%d", rr.Key, rr.Found, rr.Got.Version))
				} else {
					ops = append(ops, fmt.Sprintf("iter(rev=%v,%d items)", rr.Opts.Reverse, len(rr.Items)))
				}
			}
			for _, w := range t.Writes {
				ops = append(ops, fmt.Sprintf("set(%x,del=%v,len=%d)", w.Key, w.Ver.Del, w.Ver.Len))
			}
			s["example_txn"] = map[string]any{"id": t.ID, "readTs": t.ReadTs, "commitTs": t.CommitTs, "err": t.CommitErr, "ops": ops}
			break
		}
	}
	return s
}

func modelMergeVer(ts uint64, val []byte) model.Ver {
	return model.Ver{Ts: ts, Raw: append([]byte{}, val...), Merge: true}
}

func installShapeHook(sr *shapeRec) { sched.Install(sched.Config{OnEv: sr.onEv}) }
func uninstallHooks()               { sched.Uninstall() }

type modelVer = model.Ver

func modelVerTok(ts uint64, tok string, n int) model.Ver {
	return model.Ver{Ts: ts, Token: tok, Len: n}
}
