package props

import (
	"fmt"
	"os"
	"time"

	badger "github.com/dgraph-io/badger/v4"

	"verif/h/core"
	"verif/h/hist"
	"verif/h/sched"
)

// C05 iterators over data spread across memtables, L0 and deeper levels.
func C05(c *core.Ctx) {
	c.Rule("histories over 32-64 hostile keys (prefix chains, 0x00/0xFF tails, version-suffix look-alikes) written by 4 clients with deletes, expiry and " +
		"several versions per key, tiny memtables and background compaction so data spreads over memtable/L0/deeper levels; a pinned transaction holds the " +
		"discard watermark so AllVersions is exact; ~90% of read steps are iterators (forward/reverse, Prefix+Rewind, Prefix+Seek, free Seek, ValidForPrefix, " +
		"key iterators, SinceTs, AllVersions, PrefetchSize 0/1/2/100 or no prefetch, partial consumption); final full-state comparison incl. AllVersions after " +
		"all flushes; distinct = iterator shape x storage spread classes")
	work := c.WorkDir()
	defer os.RemoveAll(work)
	idx := 0
	for round := 0; round < c.Pick(1, 6); round++ {
		for _, v := range []int{0, 1, 2, 5, 6, 8} {
			idx++
			hr := HistRun{Variant: v, Pin: true, NKeys: 32 + (idx%3)*16, MaxKey: 10, Sched: sched.Config{Prob: 0.02, MaxSleep: time.Millisecond},
				Mix: func(keys [][]byte) hist.Mix {
					m := hist.DefaultMix(keys)
					m.Clients = 4
					m.TxnsPerClient = c.Pick(900, 1800)
					m.ROFrac = 0.5
					m.IterFrac = 0.9
					m.MaxReads = 4
					m.OwnReadFrac = 0.2
					m.DeleteFrac = 0.2
					m.ExpireFrac = 0.4
					m.DiscardFrac = 0.1
					m.AllVersions = true
					m.SinceTs = true
					m.AsyncFrac = 0
					m.ValSizes = []int{24, 64, 65, 200}
					return m
				}}
			var lv []badger.LevelInfo
			hr.AfterRun = func(db *badger.DB) { lv = db.Levels() }
			res, err := runHistory(c, work, idx, hr)
			if err != nil {
				c.Inconclusive(err.Error())
				continue
			}
			c.Eval(1)
			reportProbs(c, "C05", res.Probs, res.Name)
			st := hist.CheckReads(c, "C05", res.H, res.M)
			addReadStats(c, st)
			addSchedCoverage(c, res.S)
			// the pin was released at the end of the workload, but nothing has been compacted since
			// unless a compactor ran in between; AllVersions of the final state is therefore only
			// compared for the newest version of each key (non-AllVersions) here.
			st2 := hist.CheckState(c, "C05|final", res.DB, res.M, hist.StateOpts{})
			addReadStats(c, st2)
			levels := 0
			for _, l := range lv {
				if l.NumTables > 0 {
					levels++
				}
			}
			c.Count("spread.levels_with_tables", int64(levels))
			for _, t := range res.H.Txns {
				for _, rr := range t.Reads {
					if rr.Kind == "iter" {
						c.Distinct(fmt.Sprintf("rev=%v|all=%v|prefix=%v|since=%v|keyiter=%v|vfp=%v|seek=%v|prefetch=%d|levels=%d", rr.Opts.Reverse, rr.Opts.AllVersions,
							len(rr.Opts.Prefix) > 0, rr.Opts.SinceTs > 0, rr.Opts.OnlyKey != nil, rr.VFP != nil, !rr.Rewind, rr.Prefetch, levels))
					}
				}
			}
			if idx <= 2 {
				c.Sample(histSample(res))
			}
			_ = res.DB.Close()
			_ = os.RemoveAll(res.Dir)
		}
	}
	if c.Counter("ev.compact.shape") == 0 || c.Counter("spread.levels_with_tables") == 0 {
		c.Inconclusive("data never reached the levels")
	}
	c.Assume("seeks issued under a configured Prefix carry that prefix (otherwise badger may stop at an invisible entry between the seek key and the prefix range - outside the statement); internal !badger! keys are exercised in C28/C29 checks")
}
