package props

import (
	"bytes"
	"errors"
	"fmt"
	"math/rand"
	"os"
	"path/filepath"
	"strings"
	"sync"
	"sync/atomic"
	"time"

	"github.com/anishathalye/porcupine"
	badger "github.com/dgraph-io/badger/v4"

	"verif/h/core"
	"verif/h/drv"
	"verif/h/hist"
	"verif/h/model"
)

type mergeOp struct {
	Add bool
	Tok string
}

var mergeModel = porcupine.Model{
	Init: func() interface{} { return "" },
	Step: func(st, in, out interface{}) (bool, interface{}) {
		o := in.(mergeOp)
		if o.Add {
			return true, st.(string) + o.Tok
		}
		return out.(string) == st.(string), st
	},
	DescribeOperation: func(in, out interface{}) string {
		o := in.(mergeOp)
		if o.Add {
			return "add(" + o.Tok + ")"
		}
		return fmt.Sprintf("get -> %q", out)
	},
}

// tokensOf splits "<1><7><3>" into tokens.
func tokensOf(s string) ([]string, bool) {
	var out []string
	for len(s) > 0 {
		if s[0] != '<' {
			return nil, false
		}
		j := strings.IndexByte(s, '>')
		if j < 0 {
			return nil, false
		}
		out = append(out, s[:j+1])
		s = s[j+1:]
	}
	return out, true
}

// checkAppendList is a direct monitor for an append-only list with unique elements: every Get
// returns a duplicate-free list of tokens whose Add had started, containing every Add completed
// before the Get started, ordered consistently with the real-time order of the Adds; and all Get
// results are prefixes of one another (the list only grows at its end).
func checkAppendList(ops []porcupine.Operation) string {
	type add struct{ call, ret int64 }
	adds := map[string]add{}
	for _, o := range ops {
		if in := o.Input.(mergeOp); in.Add {
			adds[in.Tok] = add{o.Call, o.Return}
		}
	}
	var longest []string
	for _, o := range ops {
		in := o.Input.(mergeOp)
		if in.Add {
			continue
		}
		toks, ok := tokensOf(o.Output.(string))
		if !ok {
			return fmt.Sprintf("garbled-value: Get returned %q", o.Output)
		}
		pos := map[string]int{}
		for i, t := range toks {
			a, known := adds[t]
			if !known {
				return fmt.Sprintf("unknown-token: Get returned %s which was never added", t)
			}
			if _, dup := pos[t]; dup {
				return fmt.Sprintf("duplicate-token: Get returned %s twice: %q", t, o.Output)
			}
			if a.call > o.Return {
				return fmt.Sprintf("token-from-the-future: Get returned %s whose Add started after the Get returned", t)
			}
			pos[t] = i
		}
		for t, a := range adds {
			if _, has := pos[t]; !has && a.ret < o.Call {
				return fmt.Sprintf("lost-add: Add(%s) completed at %d before Get was called at %d but is missing from %q", t, a.ret, o.Call, o.Output)
			}
		}
		for i := 0; i < len(toks); i++ {
			for j := i + 1; j < len(toks); j++ {
				if adds[toks[j]].ret < adds[toks[i]].call {
					return fmt.Sprintf("order: %s appears before %s although Add(%s) completed before Add(%s) started", toks[i], toks[j], toks[j], toks[i])
				}
			}
		}
		// prefix consistency with the longest result so far
		a, b := toks, longest
		if len(a) > len(b) {
			a, b = b, a
		}
		for i := range a {
			if a[i] != b[i] {
				return fmt.Sprintf("not-prefix-comparable: two Gets returned %q and %q", strings.Join(toks, ""), strings.Join(longest, ""))
			}
		}
		if len(toks) > len(longest) {
			longest = toks
		}
	}
	// a Get that started after another Get returned cannot see a shorter list
	for _, g1 := range ops {
		if g1.Input.(mergeOp).Add {
			continue
		}
		for _, g2 := range ops {
			if g2.Input.(mergeOp).Add || g1.Return >= g2.Call {
				continue
			}
			if len(g2.Output.(string)) < len(g1.Output.(string)) {
				return fmt.Sprintf("went-backwards: a later Get returned %q after an earlier Get had returned %q", g2.Output, g1.Output)
			}
		}
	}
	return ""
}

// C31 a merge operator returns the fold of all added values, in Add order.

// c31Driven is the sequential counterpart of the concurrent histories: no background compactor, a
// merge operator whose own merge runs either never (1 h interval: the operands must survive every
// compaction unmerged) or on demand (Stop runs it), and a random script of Add / junk writes /
// flush / watermark advance / forced and picked compactions / Get / operator restart / re-open.
// With one caller the oracle is exact: Get returns the concatenation of every token added so far.
func c31Driven(c *core.Ctx, work string, idx int, r *rand.Rand) {
	dir := filepath.Join(work, fmt.Sprintf("drv%d", idx))
	_ = os.MkdirAll(dir, 0o755)
	defer os.RemoveAll(dir)
	o, oname := drvOptions(dir, idx)
	o.NumVersionsToKeep = 1 + idx%3
	big := idx%2 == 1 // operands above the value threshold (merge entries that are value pointers)
	db, err := drv.Open(o, false)
	if err != nil {
		c.Inconclusive("open: " + err.Error())
		return
	}
	w := &drv.World{C: c, Sig: "C31|driven", DB: db, Opt: o, M: model.New(), R: r}
	defer func() { _ = w.DB.Close() }()
	app := func(a, b []byte) []byte { return append(append([]byte{}, a...), b...) }
	key := []byte("k~merge")
	mop := w.DB.GetMergeOperator(key, app, time.Hour)
	var want []byte
	ntok, compactions, gets := 0, 0, 0
	get := func(stage string) bool {
		got, err := mop.Get()
		gets++
		c.Count("merge.driven_gets", 1)
		if len(want) == 0 {
			if !errors.Is(err, badger.ErrKeyNotFound) {
				c.Violation("C31|driven|not-found", fmt.Sprintf("%s: Get before the first Add returns %q, %v", stage, got, err), w.Witness())
				return false
			}
			return true
		}
		if err != nil || !bytes.Equal(got, want) {
			gt, _ := tokensOf(string(got))
			wt, _ := tokensOf(string(want))
			c.Violation("C31|driven|fold", fmt.Sprintf("%s: Get returns %d tokens (err=%v), %d were added; got %.120q want %.120q", stage, len(gt), err, len(wt), got, want), w.Witness())
			return false
		}
		return true
	}
	steps := c.Pick(60, 160)
	for st := 0; st < steps; st++ {
		switch x := r.Intn(100); {
		case x < 30:
			tok := fmt.Sprintf("<%d>", ntok)
			if big {
				tok = fmt.Sprintf("<%d%s>", ntok, strings.Repeat("x", 70+r.Intn(60)))
			}
			ntok++
			if err := mop.Add([]byte(tok)); err != nil {
				c.Inconclusive("driven Add: " + err.Error())
				return
			}
			want = append(want, tok...)
			w.Steps = append(w.Steps, "add "+tok[:min(len(tok), 12)])
		case x < 45:
			_, _ = w.Commit([]drv.WriteSpec{{Key: []byte(fmt.Sprintf("junk%02d", r.Intn(30))), Len: 100 + r.Intn(900)}})
		case x < 60:
			w.Flush()
		case x < 70:
			w.AdvanceWatermark()
		case x < 82:
			if w.CompactForce(r.Intn(o.MaxLevels-1), 1) {
				compactions++
				if !get("after-forced-compaction") {
					return
				}
			}
		case x < 90:
			if ok, _ := w.CompactPicked(r.Intn(2)); ok {
				compactions++
				if !get("after-picked-compaction") {
					return
				}
			}
		case x < 95:
			if !get("step") {
				return
			}
		case x < 98:
			// Stop runs the operator's own merge once (write-back at the newest operand's version)
			mop.Stop()
			mop = w.DB.GetMergeOperator(key, app, time.Hour)
			w.Steps = append(w.Steps, "operator-restart")
			if !get("after-operator-merge") {
				return
			}
		default:
			mop.Stop()
			if err := w.DB.Close(); err != nil {
				c.Violation("C31|driven|close", err.Error(), w.Witness())
				return
			}
			if w.DB, err = drv.Open(o, false); err != nil {
				c.Violation("C31|driven|reopen", err.Error(), w.Witness())
				return
			}
			mop = w.DB.GetMergeOperator(key, app, time.Hour)
			w.Steps = append(w.Steps, "reopen")
			if !get("after-reopen") {
				return
			}
		}
	}
	w.Flush()
	w.AdvanceWatermark()
	for l := 0; l < o.MaxLevels-1; l++ {
		if w.CompactForce(l, 1) {
			compactions++
		}
	}
	get("final")
	mop.Stop()
	c.Eval(1)
	c.Count("merge.driven_compactions", int64(compactions))
	c.Count("merge.driven_tokens", int64(ntok))
	if compactions > 0 {
		c.Distinct(fmt.Sprintf("driven|%s|keep=%d|big=%v", oname, o.NumVersionsToKeep, big))
	}
}

func C31(c *core.Ctx) {
	c.Rule("2-6 clients call Add(unique token) and Get on one MergeOperator whose merge function is list append (associative, not commutative, so order is asserted), merge " +
		"interval 1-40 ms, tiny memtables with background flush/compaction, 2-3 phases separated by Stop, Close and re-open; in every second history the merge key has neighbours (a proper prefix of it, keys extending it, a second merge operator on an extending key fed concurrently) whose values must never appear in the list; call/return events are checked with porcupine " +
		"against a list model: Get must return the concatenation of a linearization prefix of the Adds, ErrKeyNotFound only before the first completed Add; many short histories; " +
		"distinct = (clients, merge interval class, phases, options) configurations in which a background merge ran between Adds")
	work := c.WorkDir()
	defer os.RemoveAll(work)
	r := c.Rand("c31")
	n := c.Pick(40, 400)
	app := func(a, b []byte) []byte { return append(append([]byte{}, a...), b...) }
	for i := 0; i < n; i++ {
		dir := filepath.Join(work, fmt.Sprintf("m%d", i))
		_ = os.MkdirAll(dir, 0o755)
		ov := hist.SmallOptions(dir, []int{0, 1, 2, 6, 3}[i%5], r)
		ov.Opt.MemTableSize = 16 << 10
		ov.Opt.ValueThreshold = 32
		db, err := badger.Open(ov.Opt)
		if err != nil {
			c.Inconclusive("open: " + err.Error())
			continue
		}
		nClients := 2 + r.Intn(5)
		phases := 2 + r.Intn(2)
		dur := time.Duration(1+r.Intn(40)) * time.Millisecond
		var clock atomic.Int64
		var ops []porcupine.Operation
		var mu sync.Mutex
		key := []byte("merge-key")
		// neighbours of the merge key (a proper prefix of it, keys that extend it, the adjacent keys):
		// their values must never show up in the merged list
		neighbours := i%2 == 0
		if neighbours {
			_ = db.Update(func(txn *badger.Txn) error {
				for j, k := range []string{"merge-ke", "merge-key\x00", "merge-key-sibling", "merge-key\xff", "merge-kez"} {
					if err := txn.Set([]byte(k), []byte(fmt.Sprintf("<foreign%d>", j))); err != nil {
						return err
					}
				}
				return nil
			})
		}
		c.Eval(1)
		info := map[string]any{"clients": nClients, "phases": phases, "merge_interval_ms": dur.Milliseconds(), "options": ov.Name}
		ntok := 0
		for ph := 0; ph < phases && db != nil; ph++ {
			mo := db.GetMergeOperator(key, app, dur)
			var sib *badger.MergeOperator
			if neighbours {
				// a second operator on a key that extends the merge key, fed concurrently
				sib = db.GetMergeOperator([]byte("merge-key:2"), app, dur)
			}
			var wg sync.WaitGroup
			seeds := make([]int64, nClients)
			for j := range seeds {
				seeds[j] = r.Int63()
			}
			base := ntok
			perClient := 4 + r.Intn(8)
			ntok += nClients * perClient
			for cl := 0; cl < nClients; cl++ {
				wg.Add(1)
				go func(cl int) {
					defer wg.Done()
					rr := c.Rand(fmt.Sprintf("c31-%d-%d-%d", i, ph, seeds[cl]))
					var local []porcupine.Operation
					for k := 0; k < perClient; k++ {
						if rr.Intn(3) != 0 {
							tok := fmt.Sprintf("<%d>", base+cl*perClient+k)
							if sib != nil && rr.Intn(2) == 0 {
								_ = sib.Add([]byte(fmt.Sprintf("<sibling%d.%d>", cl, k)))
							}
							t0 := clock.Add(1)
							err := mo.Add([]byte(tok))
							t1 := clock.Add(1)
							if err != nil {
								// an Add that failed may or may not have taken effect: keep it open to the end
								t1 = 1 << 60
							}
							local = append(local, porcupine.Operation{ClientId: cl, Input: mergeOp{Add: true, Tok: tok}, Call: t0, Output: "", Return: t1})
						} else {
							t0 := clock.Add(1)
							v, err := mo.Get()
							t1 := clock.Add(1)
							out := string(v)
							if errors.Is(err, badger.ErrKeyNotFound) {
								out = ""
							} else if err != nil {
								c.Violation("C31|get-error", err.Error(), info)
								continue
							}
							local = append(local, porcupine.Operation{ClientId: cl, Input: mergeOp{}, Call: t0, Output: out, Return: t1})
						}
						if rr.Intn(4) == 0 {
							time.Sleep(time.Duration(rr.Intn(3000)) * time.Microsecond)
						}
					}
					mu.Lock()
					ops = append(ops, local...)
					mu.Unlock()
				}(cl)
			}
			wg.Wait()
			time.Sleep(dur) // let a background merge run on the quiescent state
			t0 := clock.Add(1)
			v, err := mo.Get()
			t1 := clock.Add(1)
			if err == nil || errors.Is(err, badger.ErrKeyNotFound) {
				ops = append(ops, porcupine.Operation{ClientId: 100, Input: mergeOp{}, Call: t0, Output: string(v), Return: t1})
			}
			mo.Stop()
			if sib != nil {
				sib.Stop()
			}
			if ph < phases-1 {
				if err := db.Close(); err != nil {
					c.Violation("C31|close", err.Error(), info)
				}
				if db, err = badger.Open(ov.Opt); err != nil {
					c.Violation("C31|reopen", err.Error(), info)
					db = nil
				}
			}
		}
		c.Count("merge.ops", int64(len(ops)))
		if bad := checkAppendList(ops); bad != "" {
			var d []string
			for _, o := range ops {
				d = append(d, fmt.Sprintf("c%d [%d,%d] %s", o.ClientId, o.Call, o.Return, mergeModel.DescribeOperation(o.Input, o.Output)))
			}
			info["ops"] = d
			kind := strings.SplitN(bad, ":", 2)[0]
			c.Violation("C31|"+kind, "merge operator history violates the append-list specification: "+bad, info)
		} else if len(ops) <= 45 {
			// small histories are cross-checked with porcupine
			res, _ := porcupine.CheckOperationsVerbose(mergeModel, ops, 20*time.Second)
			c.Count("merge.porcupine_histories", 1)
			switch res {
			case porcupine.Illegal:
				c.Violation("C31|porcupine-illegal", "porcupine finds no linearization under the append-list model", info)
			case porcupine.Unknown:
				c.Count("merge.porcupine_timeouts", 1)
			}
		}
		if db != nil {
			_ = db.Close()
		}
		_ = os.RemoveAll(dir)
		c.Distinct(fmt.Sprintf("clients=%d|dur=%d|phases=%d|%s|neighbours=%v", nClients, dur.Milliseconds()/10, phases, ov.Name, neighbours))
		if i < 2 {
			c.Sample(info)
		}
	}
	c.Rule("driven scripts (no background compactor, merge interval 1 h so operands stay unmerged unless the operator is stopped): random Add / junk writes / flush / watermark advance / " +
		"forced and picked compactions / operator restart / re-open with one caller; every Get must return exactly the concatenation of all tokens added so far")
	nd := c.Pick(24, 200)
	for i := 0; i < nd; i++ {
		c31Driven(c, work, i, r)
	}
	c.CheckRaces(nil, "", "")
	c.Assume("the merge function is associative; interleavings of the background merge come from its 1-40 ms ticker against client calls")
}
