package props

import (
	"errors"
	"fmt"
	"os"
	"path/filepath"
	"strings"
	"sync"
	"sync/atomic"
	"time"

	"github.com/anishathalye/porcupine"
	badger "github.com/dgraph-io/badger/v4"

	"verif/h/core"
	"verif/h/hist"
)

type mergeOp struct {
	Add bool
	Tok string
}

var mergeModel = porcupine.Model{
	Init: func() interface{} { return "" },
	Step: func(st, in, out interface{}) (bool, interface{}) {
		o := in.(mergeOp)
		if o.Add {
			return true, st.(string) + o.Tok
		}
		return out.(string) == st.(string), st
	},
	DescribeOperation: func(in, out interface{}) string {
		o := in.(mergeOp)
		if o.Add {
			return "add(" + o.Tok + ")"
		}
		return fmt.Sprintf("get -> %q", out)
	},
}

// tokensOf splits "<1><7><3>" into tokens.
func tokensOf(s string) ([]string, bool) {
	var out []string
	for len(s) > 0 {
		if s[0] != '<' {
			return nil, false
		}
		j := strings.IndexByte(s, '>')
		if j < 0 {
			return nil, false
		}
		out = append(out, s[:j+1])
		s = s[j+1:]
	}
	return out, true
}

// checkAppendList is a direct monitor for an append-only list with unique elements: every Get
// returns a duplicate-free list of tokens whose Add had started, containing every Add completed
// before the Get started, ordered consistently with the real-time order of the Adds; and all Get
// results are prefixes of one another (the list only grows at its end).
func checkAppendList(ops []porcupine.Operation) string {
	type add struct{ call, ret int64 }
	adds := map[string]add{}
	for _, o := range ops {
		if in := o.Input.(mergeOp); in.Add {
			adds[in.Tok] = add{o.Call, o.Return}
		}
	}
	var longest []string
	for _, o := range ops {
		in := o.Input.(mergeOp)
		if in.Add {
			continue
		}
		toks, ok := tokensOf(o.Output.(string))
		if !ok {
			return fmt.Sprintf("garbled-value: Get returned %q", o.Output)
		}
		pos := map[string]int{}
		for i, t := range toks {
			a, known := adds[t]
			if !known {
				return fmt.Sprintf("unknown-token: Get returned %s which was never added", t)
			}
			if _, dup := pos[t]; dup {
				return fmt.Sprintf("duplicate-token: Get returned %s twice: %q", t, o.Output)
			}
			if a.call > o.Return {
				return fmt.Sprintf("token-from-the-future: Get returned %s whose Add started after the Get returned", t)
			}
			pos[t] = i
		}
		for t, a := range adds {
			if _, has := pos[t]; !has && a.ret < o.Call {
				return fmt.Sprintf("lost-add: Add(%s) completed at %d before Get was called at %d but is missing from %q", t, a.ret, o.Call, o.Output)
			}
		}
		for i := 0; i < len(toks); i++ {
			for j := i + 1; j < len(toks); j++ {
				if adds[toks[j]].ret < adds[toks[i]].call {
					return fmt.Sprintf("order: %s appears before %s although Add(%s) completed before Add(%s) started", toks[i], toks[j], toks[j], toks[i])
				}
			}
		}
		// prefix consistency with the longest result so far
		a, b := toks, longest
		if len(a) > len(b) {
			a, b = b, a
		}
		for i := range a {
			if a[i] != b[i] {
				return fmt.Sprintf("not-prefix-comparable: two Gets returned %q and %q", strings.Join(toks, ""), strings.Join(longest, ""))
			}
		}
		if len(toks) > len(longest) {
			longest = toks
		}
	}
	// a Get that started after another Get returned cannot see a shorter list
	for _, g1 := range ops {
		if g1.Input.(mergeOp).Add {
			continue
		}
		for _, g2 := range ops {
			if g2.Input.(mergeOp).Add || g1.Return >= g2.Call {
				continue
			}
			if len(g2.Output.(string)) < len(g1.Output.(string)) {
				return fmt.Sprintf("went-backwards: a later Get returned %q after an earlier Get had returned %q", g2.Output, g1.Output)
			}
		}
	}
	return ""
}

// C31 a merge operator returns the fold of all added values, in Add order.
func C31(c *core.Ctx) {
	c.Rule("2-6 clients call Add(unique token) and Get on one MergeOperator whose merge function is list append (associative, not commutative, so order is asserted), merge " +
		"interval 1-40 ms, tiny memtables with background flush/compaction, 2-3 phases separated by Stop, Close and re-open; in every second history the merge key has neighbours (a proper prefix of it, keys extending it, a second merge operator on an extending key fed concurrently) whose values must never appear in the list; call/return events are checked with porcupine " +
		"against a list model: Get must return the concatenation of a linearization prefix of the Adds, ErrKeyNotFound only before the first completed Add; many short histories; " +
		"distinct = (clients, merge interval class, phases, options) configurations in which a background merge ran between Adds")
	work := c.WorkDir()
	defer os.RemoveAll(work)
	r := c.Rand("c31")
	n := c.Pick(40, 400)
	app := func(a, b []byte) []byte { return append(append([]byte{}, a...), b...) }
	for i := 0; i < n; i++ {
		dir := filepath.Join(work, fmt.Sprintf("m%d", i))
		_ = os.MkdirAll(dir, 0o755)
		ov := hist.SmallOptions(dir, []int{0, 1, 2, 6, 3}[i%5], r)
		ov.Opt.MemTableSize = 16 << 10
		ov.Opt.ValueThreshold = 32
		db, err := badger.Open(ov.Opt)
		if err != nil {
			c.Inconclusive("open: " + err.Error())
			continue
		}
		nClients := 2 + r.Intn(5)
		phases := 2 + r.Intn(2)
		dur := time.Duration(1+r.Intn(40)) * time.Millisecond
		var clock atomic.Int64
		var ops []porcupine.Operation
		var mu sync.Mutex
		key := []byte("merge-key")
		// neighbours of the merge key (a proper prefix of it, keys that extend it, the adjacent keys):
		// their values must never show up in the merged list
		neighbours := i%2 == 0
		if neighbours {
			_ = db.Update(func(txn *badger.Txn) error {
				for j, k := range []string{"merge-ke", "merge-key\x00", "merge-key-sibling", "merge-key\xff", "merge-kez"} {
					if err := txn.Set([]byte(k), []byte(fmt.Sprintf("<foreign%d>", j))); err != nil {
						return err
					}
				}
				return nil
			})
		}
		c.Eval(1)
		info := map[string]any{"clients": nClients, "phases": phases, "merge_interval_ms": dur.Milliseconds(), "options": ov.Name}
		ntok := 0
		for ph := 0; ph < phases && db != nil; ph++ {
			mo := db.GetMergeOperator(key, app, dur)
			var sib *badger.MergeOperator
			if neighbours {
				// a second operator on a key that extends the merge key, fed concurrently
				sib = db.GetMergeOperator([]byte("merge-key:2"), app, dur)
			}
			var wg sync.WaitGroup
			seeds := make([]int64, nClients)
			for j := range seeds {
				seeds[j] = r.Int63()
			}
			base := ntok
			perClient := 4 + r.Intn(8)
			ntok += nClients * perClient
			for cl := 0; cl < nClients; cl++ {
				wg.Add(1)
				go func(cl int) {
					defer wg.Done()
					rr := c.Rand(fmt.Sprintf("c31-%d-%d-%d", i, ph, seeds[cl]))
					var local []porcupine.Operation
					for k := 0; k < perClient; k++ {
						if rr.Intn(3) != 0 {
							tok := fmt.Sprintf("<%d>", base+cl*perClient+k)
							if sib != nil && rr.Intn(2) == 0 {
								_ = sib.Add([]byte(fmt.Sprintf("<sibling%d.%d>", cl, k)))
							}
							t0 := clock.Add(1)
							err := mo.Add([]byte(tok))
							t1 := clock.Add(1)
							if err != nil {
								// an Add that failed may or may not have taken effect: keep it open to the end
								t1 = 1 << 60
							}
							local = append(local, porcupine.Operation{ClientId: cl, Input: mergeOp{Add: true, Tok: tok}, Call: t0, Output: "", Return: t1})
						} else {
							t0 := clock.Add(1)
							v, err := mo.Get()
							t1 := clock.Add(1)
							out := string(v)
							if errors.Is(err, badger.ErrKeyNotFound) {
								out = ""
							} else if err != nil {
								c.Violation("C31|get-error", err.Error(), info)
								continue
							}
							local = append(local, porcupine.Operation{ClientId: cl, Input: mergeOp{}, Call: t0, Output: out, Return: t1})
						}
						if rr.Intn(4) == 0 {
							time.Sleep(time.Duration(rr.Intn(3000)) * time.Microsecond)
						}
					}
					mu.Lock()
					ops = append(ops, local...)
					mu.Unlock()
				}(cl)
			}
			wg.Wait()
			time.Sleep(dur) // let a background merge run on the quiescent state
			t0 := clock.Add(1)
			v, err := mo.Get()
			t1 := clock.Add(1)
			if err == nil || errors.Is(err, badger.ErrKeyNotFound) {
				ops = append(ops, porcupine.Operation{ClientId: 100, Input: mergeOp{}, Call: t0, Output: string(v), Return: t1})
			}
			mo.Stop()
			if sib != nil {
				sib.Stop()
			}
			if ph < phases-1 {
				if err := db.Close(); err != nil {
					c.Violation("C31|close", err.Error(), info)
				}
				if db, err = badger.Open(ov.Opt); err != nil {
					c.Violation("C31|reopen", err.Error(), info)
					db = nil
				}
			}
		}
		c.Count("merge.ops", int64(len(ops)))
		if bad := checkAppendList(ops); bad != "" {
			var d []string
			for _, o := range ops {
				d = append(d, fmt.Sprintf("c%d [%d,%d] %s", o.ClientId, o.Call, o.Return, mergeModel.DescribeOperation(o.Input, o.Output)))
			}
			info["ops"] = d
			kind := strings.SplitN(bad, ":", 2)[0]
			c.Violation("C31|"+kind, "merge operator history violates the append-list specification: "+bad, info)
		} else if len(ops) <= 45 {
			// small histories are cross-checked with porcupine
			res, _ := porcupine.CheckOperationsVerbose(mergeModel, ops, 20*time.Second)
			c.Count("merge.porcupine_histories", 1)
			switch res {
			case porcupine.Illegal:
				c.Violation("C31|porcupine-illegal", "porcupine finds no linearization under the append-list model", info)
			case porcupine.Unknown:
				c.Count("merge.porcupine_timeouts", 1)
			}
		}
		if db != nil {
			_ = db.Close()
		}
		_ = os.RemoveAll(dir)
		c.Distinct(fmt.Sprintf("clients=%d|dur=%d|phases=%d|%s|neighbours=%v", nClients, dur.Milliseconds()/10, phases, ov.Name, neighbours))
		if i < 2 {
			c.Sample(info)
		}
	}
	c.CheckRaces(nil, "", "")
	c.Assume("the merge function is associative; interleavings of the background merge come from its 1-40 ms ticker against client calls")
}
