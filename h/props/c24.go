package props

import (
	"bytes"
	"fmt"
	"os"
	"path/filepath"
	"sync"
	"time"

	badger "github.com/dgraph-io/badger/v4"

	"verif/h/core"
	"verif/h/drv"
	"verif/h/gen"
	"verif/h/hist"
	"verif/h/model"
	"verif/h/sched"
)

// backupExpectation applies Stream.Backup's version rules to a model in which every version was
// retained: per key, newest first, every version > since up to and including the first deleted or
// expired one (whose value is not copied), or up to and including the first discard-earlier version,
// which is followed by a synthetic delete marker one version below it.
func backupExpectation(m *model.DB, since uint64) *model.DB {
	now := uint64(time.Now().Unix())
	out := model.New()
	for k, vs := range m.M {
		for _, v := range vs {
			if v.Ts <= since && since > 0 {
				break
			}
			if v.Dead(now) && !v.Del {
				e := v
				e.Raw, e.Token, e.Len = []byte{}, "", 0
				out.Put(k, e)
				break
			}
			out.Put(k, v)
			if v.Del {
				break
			}
			if v.Discard {
				out.Put(k, model.Ver{Ts: v.Ts - 1, Del: true})
				break
			}
		}
	}
	return out
}

func loadInto(c *core.Ctx, sig string, opt badger.Options, dir string, bufs [][]byte) (*badger.DB, bool) {
	o := opt
	o.Dir, o.ValueDir = dir, dir
	_ = os.MkdirAll(dir, 0o755)
	db, err := badger.Open(o)
	if err != nil {
		c.Inconclusive("open target: " + err.Error())
		return nil, false
	}
	for i, b := range bufs {
		if err := db.Load(bytes.NewReader(b), 4); err != nil {
			c.Violation(sig+"|load-error", fmt.Sprintf("Load of backup %d failed: %v", i, err), nil)
			_ = db.Close()
			return nil, false
		}
	}
	return db, true
}

// c24DroppedTombstone: the deterministic form of what the concurrent chains hit now and then. A key
// is in the first backup; it is deleted (or its new version expires) and a compaction down to the
// last level drops the marker together with everything below it; the incremental backup taken with
// the version the first one returned has nothing to say about the key; the loaded chain still shows
// the old value although the source no longer has the key.
func c24DroppedTombstone(c *core.Ctx, work string, idx int) {
	dir := filepath.Join(work, fmt.Sprintf("dropped%d", idx))
	_ = os.MkdirAll(dir, 0o755)
	defer os.RemoveAll(dir)
	o, oname := drvOptions(dir, []int{0, 2, 3}[idx%3])
	o.NumVersionsToKeep = 1
	db, err := drv.Open(o, false)
	if err != nil {
		c.Inconclusive("open: " + err.Error())
		return
	}
	defer db.Close()
	r := c.Rand(fmt.Sprintf("c24-dropped-%d", idx))
	w := &drv.World{C: c, Sig: "C24|incremental", DB: db, Opt: o, M: model.New(), R: r}
	expire := idx%2 == 1
	for i := 0; i < 8; i++ {
		_, _ = w.Commit([]drv.WriteSpec{{Key: []byte(fmt.Sprintf("k%02d", i)), Len: 40}})
	}
	w.Flush()
	var b1, b2 bytes.Buffer
	ret, err := db.Backup(&b1, 0)
	if err != nil {
		c.Inconclusive("backup: " + err.Error())
		return
	}
	victim := []byte("k03")
	if expire {
		_, _ = w.Commit([]drv.WriteSpec{{Key: victim, Len: 40, Expires: 1}}) // expired long ago
	} else {
		_, _ = w.Commit([]drv.WriteSpec{{Key: victim, Del: true}})
	}
	_, _ = w.Commit([]drv.WriteSpec{{Key: []byte("k05"), Len: 50}})
	w.Flush()
	w.AdvanceWatermark()
	for rep := 0; rep < 2; rep++ {
		for l := 0; l < o.MaxLevels-1; l++ {
			w.CompactForce(l, 1)
		}
	}
	if vs := allVersions(db, false)[string(victim)]; len(vs) > 0 {
		c.Inconclusive("dropped-tombstone: the compactions kept a version of the deleted key")
		return
	}
	if _, err := db.Backup(&b2, ret); err != nil {
		c.Inconclusive("backup: " + err.Error())
		return
	}
	tdir := filepath.Join(work, fmt.Sprintf("dropped%d-target", idx))
	defer os.RemoveAll(tdir)
	tdb, ok := loadInto(c, "C24|incremental", o, tdir, [][]byte{b1.Bytes(), b2.Bytes()})
	if !ok {
		return
	}
	defer tdb.Close()
	c.Eval(1)
	srcErr := db.View(func(txn *badger.Txn) error { _, e := txn.Get(victim); return e })
	dstErr := tdb.View(func(txn *badger.Txn) error { _, e := txn.Get(victim); return e })
	c.Count("backup.dropped_tombstone_cases", 1)
	if srcErr == badger.ErrKeyNotFound && dstErr == nil {
		kind := "delete"
		if expire {
			kind = "expired"
		}
		c.Violation("C24|incremental|marker-compacted-away|resurrected", fmt.Sprintf("key %s is gone from the source (%s marker compacted away before the incremental backup, which therefore carries nothing for it) but visible in the database loaded from the chain (options %s)", victim, kind, oname),
			map[string]any{"steps": w.Steps, "first_backup_returned": ret})
	}
	// every other key must agree
	for i := 0; i < 8; i++ {
		k := []byte(fmt.Sprintf("k%02d", i))
		if string(k) == string(victim) {
			continue
		}
		var sv, dv []byte
		_ = db.View(func(txn *badger.Txn) error {
			if it, e := txn.Get(k); e == nil {
				sv, _ = it.ValueCopy(nil)
			}
			return nil
		})
		_ = tdb.View(func(txn *badger.Txn) error {
			if it, e := txn.Get(k); e == nil {
				dv, _ = it.ValueCopy(nil)
			}
			return nil
		})
		if string(sv) != string(dv) {
			c.Violation("C24|incremental|value-differs", fmt.Sprintf("key %s: source %d bytes, loaded chain %d bytes", k, len(sv), len(dv)), nil)
		}
	}
	c.Distinct(fmt.Sprintf("dropped-marker|%s|expire=%v", oname, expire))
}

// C24 backup and load round trip, including incremental chains.
func C24(c *core.Ctx) {
	c.Rule("(1) full backups of quiescent driver-built databases (data in memtable, L0 and deeper levels; deletes, past/future expiry, discard-earlier entries, user meta) loaded into an " +
		"empty database: with NumVersionsToKeep=1 the restored visible state (value, meta, expiry, version) must equal the model; with unbounded versions and no compaction the " +
		"restored AllVersions scan must equal the reference rules of Stream.Backup (versions down to the first delete/expired or discard-earlier entry, the latter followed by a " +
		"delete marker one version below); (2) chains of 3-5 incremental backups, each taken with the version returned by the previous one, while 6 committers keep writing during " +
		"all but the last backup; loading the chain must reproduce the source's final visible state; a new commit after Load gets a version above everything loaded (C11 oracle); (3) the deterministic dropped-marker case: full backup, delete (or expired overwrite) of one key, compaction to the last level until no version of the key is stored, incremental backup, load of both; " +
		"distinct = (family, options, versions kept, writes-during-backup) classes")
	work := c.WorkDir()
	defer os.RemoveAll(work)
	r := c.Rand("c24")
	// ---- (1) full backups
	n := c.Pick(16, 120)
	for i := 0; i < n; i++ {
		keepAll := i%2 == 1
		driverRunX(c, "C24", work, i, false, r, c.Pick(160, 300), false,
			func(o *badger.Options) {
				if keepAll {
					o.NumVersionsToKeep = 1 << 30
				} else {
					o.NumVersionsToKeep = 1
				}
			},
			func(w *drv.World, step string) {
				if step != "end" {
					w.DiscardFrac = 0.1
					return
				}
				if keepAll && (c.Counter("step.compact-picked-L0")+c.Counter("step.compact-forced") > 0) {
					// with unbounded versions compaction still drops versions below deletes; the exact
					// AllVersions comparison needs a source that kept everything, so rebuild the
					// expectation from what the source itself still holds (its dump) instead of the model
				}
				w.CloseSnapshots()
				var buf bytes.Buffer
				ret, err := w.DB.Backup(&buf, 0)
				if err != nil {
					c.Violation("C24|full|backup-error", err.Error(), w.Witness())
					return
				}
				c.Count("backup.full", 1)
				tdir := filepath.Join(work, fmt.Sprintf("restore%d", i))
				defer os.RemoveAll(tdir)
				tdb, ok := loadInto(c, "C24|full", w.Opt, tdir, [][]byte{buf.Bytes()})
				if !ok {
					return
				}
				defer tdb.Close()
				if mx := w.M.MaxTs(); ret > mx {
					c.Violation("C24|full|returned-version-too-high", fmt.Sprintf("Backup returned %d but the newest source version is %d", ret, mx), nil)
				}
				st := hist.CheckState(c, "C24|full|visible", tdb, w.M, hist.StateOpts{})
				c.Count("backup.reads_checked", st.Gets+st.IterItems)
				if keepAll {
					// expectation from the source's own retained versions
					src := model.New()
					for k, items := range allVersions(w.DB, false) {
						for _, it := range items {
							for _, mv := range w.M.M[k] {
								if mv.Ts == it.Version {
									src.Put(k, mv)
								}
							}
						}
					}
					exp := backupExpectation(src, 0)
					got := allVersions(tdb, false)
					for _, k := range exp.Keys() {
						var ev, gv []string
						for _, v := range exp.M[k] {
							ev = append(ev, fmt.Sprintf("%d del=%v", v.Ts, v.Del))
						}
						for _, it := range got[k] {
							d := it.Dead && it.ExpiresAt == 0
							gv = append(gv, fmt.Sprintf("%d del=%v", it.Version, d))
						}
						c.Count("backup.allversions_keys_checked", 1)
						if fmt.Sprint(ev) != fmt.Sprint(gv) {
							c.Violation("C24|full|all-versions", fmt.Sprintf("key %x: restored versions %v, expected %v", k, gv, ev), w.Witness())
							break
						}
					}
				}
				checkNewCommitAbove(c, "C24|after-load", tdb, []byte("b~new"), fmt.Sprintf("L%d", i), nil)
				c.Distinct(fmt.Sprintf("full|variant=%d|keepAll=%v", i%6, keepAll))
			})
	}
	// ---- (2) incremental chains with concurrent writers
	idx := 0
	for round := 0; round < c.Pick(2, 8); round++ {
		for _, v := range []int{0, 1, 3} {
			idx++
			var bufs [][]byte
			var rets []uint64
			var mu sync.Mutex
			stop := make(chan struct{})
			var wg sync.WaitGroup
			var since uint64
			var dbh *badger.DB
			berr := ""
			takeBackup := func() {
				var buf bytes.Buffer
				ret, err := dbh.Backup(&buf, since)
				mu.Lock()
				defer mu.Unlock()
				if err != nil {
					berr = err.Error()
					return
				}
				bufs = append(bufs, buf.Bytes())
				rets = append(rets, ret)
				if ret > since {
					since = ret
				}
			}
			cfg := sched.Config{Prob: 0.03, MaxSleep: 2 * time.Millisecond, ProbBy: map[string]float64{"stream.beforeTxn": 0.9, "stream.range": 0.5}}
			hr := HistRun{Variant: v, Sched: cfg, NKeys: 30, MaxKey: 8,
				Tweak: func(o *badger.Options) { o.NumVersionsToKeep = 1; o.NumGoroutines = 4 },
				Mix: func(keys [][]byte) hist.Mix {
					m := hist.DefaultMix(keys)
					m.Clients = 6
					m.TxnsPerClient = c.Pick(220, 400)
					m.ROFrac, m.IterFrac, m.HeldFrac = 0.05, 0.05, 0
					m.DeleteFrac, m.ExpireFrac = 0.15, 0.2
					m.ValSizes = []int{24, 64, 65, 400}
					return m
				},
				OnStart: func(db *badger.DB, e *hist.Engine) {
					dbh = db
					wg.Add(1)
					go func() {
						defer wg.Done()
						for i := 0; i < 4; i++ {
							select {
							case <-stop:
								return
							case <-time.After(time.Duration(15+10*i) * time.Millisecond):
							}
							takeBackup()
						}
					}()
				},
				BeforeResolve: func() { close(stop); wg.Wait(); takeBackup() }} // the last backup is taken on the quiescent database
			res, err := runHistory(c, work, 5000+idx, hr)
			if err != nil {
				c.Inconclusive(err.Error())
				continue
			}
			c.Eval(1)
			if berr != "" {
				c.Violation("C24|chain|backup-error", berr, res.Name)
			}
			reportProbs(c, "C24|chain", res.Probs, res.Name)
			tdir := filepath.Join(work, fmt.Sprintf("chain%d", idx))
			tdb, ok := loadInto(c, "C24|chain", res.Opt, tdir, bufs)
			if ok {
				info := map[string]any{"options": res.Name, "backups": len(bufs), "returned_versions": rets}
				// keys whose newest version is a delete or expired entry that the source's compactions
				// already removed, marker included, cannot be in an incremental backup taken afterwards:
				// the listed finding (see c24DroppedTombstone). They are reported under its signature and
				// taken out of the comparison; everything else is compared as before.
				mm := res.M.Clone()
				srcVers := allVersions(res.DB, false)
				nowS := uint64(time.Now().Unix())
				for _, k := range res.M.Keys() {
					if _, vis := res.M.Visible(k, ^uint64(0), nowS); vis || len(srcVers[k]) > 0 {
						continue
					}
					found := tdb.View(func(txn *badger.Txn) error { _, e := txn.Get([]byte(k)); return e }) == nil
					if found {
						c.Violation("C24|incremental|marker-compacted-away|resurrected", fmt.Sprintf("key %x is gone from the source (its delete/expired marker was compacted away before a later incremental backup) but visible in the database loaded from the chain", k), info)
						_ = tdb.Update(func(txn *badger.Txn) error { return txn.Delete([]byte(k)) })
						delete(mm.M, k)
						c.Count("backup.chain_keys_with_marker_compacted_away", 1)
					}
				}
				before := c.Violations()
				st := hist.CheckState(c, "C24|chain|final-visible-state", tdb, mm, hist.StateOpts{})
				if c.Violations() > before {
					c.Set("chain_failure_info", info)
				}
				c.Count("backup.reads_checked", st.Gets+st.IterItems)
				c.Count("backup.chain_backups", int64(len(bufs)))
				checkNewCommitAbove(c, "C24|chain|after-load", tdb, []byte("b~new"), fmt.Sprintf("C%d", idx), nil)
				_ = tdb.Close()
				if idx <= 2 {
					c.Sample(info)
				}
			}
			_ = os.RemoveAll(tdir)
			c.Distinct(fmt.Sprintf("chain|%s|backups=%d", res.Name, len(bufs)))
			_ = res.DB.Close()
			_ = os.RemoveAll(res.Dir)
		}
	}
	for i := 0; i < c.Pick(4, 12); i++ {
		c24DroppedTombstone(c, work, i)
	}
	c.CheckRaces(nil, "", "")
	c.Assume("Load runs on an otherwise idle target database (its documented contract); the last backup of a chain is taken after the writers stopped so that 'final state' is defined")
}

var _ = gen.Token
