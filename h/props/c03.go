package props

import (
	"fmt"
	"os"
	"sort"
	"time"

	"github.com/anishathalye/porcupine"
	badger "github.com/dgraph-io/badger/v4"

	"verif/h/core"
	"verif/h/hist"
)

type regOp struct {
	Key   string
	Write bool
	Val   uint64
}

var regModel = porcupine.Model{
	Partition: func(history []porcupine.Operation) [][]porcupine.Operation {
		m := map[string][]porcupine.Operation{}
		for _, op := range history {
			k := op.Input.(regOp).Key
			m[k] = append(m[k], op)
		}
		var keys []string
		for k := range m {
			keys = append(keys, k)
		}
		sort.Strings(keys)
		var out [][]porcupine.Operation
		for _, k := range keys {
			out = append(out, m[k])
		}
		return out
	},
	Init: func() interface{} { return uint64(0) },
	Step: func(st, in, out interface{}) (bool, interface{}) {
		e := in.(regOp)
		if e.Write {
			return true, e.Val
		}
		return out.(uint64) == st.(uint64), st
	},
	DescribeOperation: func(in, out interface{}) string {
		e := in.(regOp)
		if e.Write {
			return fmt.Sprintf("commit(%x := v%d)", e.Key, e.Val)
		}
		return fmt.Sprintf("read(%x) -> v%d", e.Key, out)
	},
}

// porcupineHistory turns committed writes and plain Gets into register operations per key. The
// register value is the version (commit timestamp) of the write; a delete or absence reads as 0.
func porcupineHistory(h *hist.History) []porcupine.Operation {
	var ops []porcupine.Operation
	for _, t := range h.Txns {
		if t.CommitTs != 0 {
			for k, v := range t.Pending() {
				val := t.CommitTs
				if v.Del || (v.ExpiresAt != 0 && v.ExpiresAt < uint64(time.Now().Unix())) {
					val = 0
				}
				ops = append(ops, porcupine.Operation{ClientId: t.Client, Input: regOp{Key: k, Write: true, Val: val}, Call: t.CommitCall, Output: uint64(0), Return: t.CommitRet})
			}
		}
		for _, rr := range t.Reads {
			if rr.Kind != "get" || rr.Own != nil || rr.Err != "" {
				continue
			}
			var out uint64
			if rr.Found {
				out = rr.Got.Version
			}
			// a snapshot read takes effect somewhere between the start of its transaction and its return
			ops = append(ops, porcupine.Operation{ClientId: 1000 + t.ID, Input: regOp{Key: rr.Key}, Call: t.BeginCall, Output: out, Return: rr.Call + 1})
		}
	}
	return ops
}

// C03 commit atomicity, unique increasing timestamps, visibility.
func C03(c *core.Ctx) {
	c.Rule("recorded concurrent histories where every writer touches >=3 keys and every read-only transaction reads all keys, 40% CommitWith callbacks, " +
		"commits straddling memtable rotation/flush, delays at commit.afterTs/afterSend/beforeDone and in writeRequests; oracles: marker versions pairwise distinct; " +
		"Commit(A) returned before Commit(B) called => ts(A)<ts(B); transaction started after an ack has ReadTs >= that ts and (read oracle) sees all or none of every " +
		"transaction; failed commits (conflicts, and in every second history ErrBlockedWrites from a concurrent DropPrefix of an unrelated prefix) leave no marker; boundary-only porcupine register check per key; distinct = option variants x (sync/async) x result classes observed")
	work := c.WorkDir()
	defer os.RemoveAll(work)
	idx := 0
	for round := 0; round < c.Pick(2, 5); round++ {
		for _, v := range []int{0, 1, 3, 4, 7, 9} {
			idx++
			hr := HistRun{Variant: v, Sched: commitDelays, NKeys: 10,
				Mix: func(keys [][]byte) hist.Mix {
					m := hist.DefaultMix(keys)
					m.Clients = 10
					m.TxnsPerClient = c.Pick(120, 300)
					m.ROFrac = 0.4
					m.ReadAll = true
					m.IterFrac = 0.15
					m.AsyncFrac = 0.4
					m.MinWrites = 3
					m.MaxWrites = 5
					m.HeldFrac = 0
					m.ValSizes = []int{24, 64, 65, 900, 2500}
					return m
				}}
			// every second history: DropPrefix of a prefix nobody writes runs in a loop, so commits are
			// refused with ErrBlockedWrites after they obtained their timestamp; a refused commit must
			// leave no trace and must not disturb the timestamps of the commits around it
			var stopDrops chan struct{}
			var dropsDone chan int
			if idx%2 == 0 {
				stopDrops, dropsDone = make(chan struct{}), make(chan int, 1)
				hr.OnStart = func(db *badger.DB, e *hist.Engine) {
					go func() {
						n := 0
						for {
							select {
							case <-stopDrops:
								dropsDone <- n
								return
							case <-time.After(3 * time.Millisecond):
							}
							if err := db.DropPrefix([]byte("zz-nobody-writes-this")); err == nil {
								n++
							}
						}
					}()
				}
				hr.BeforeResolve = func() {
					close(stopDrops)
					c.Count("commit.unrelated_dropprefix_calls", int64(<-dropsDone))
				}
			}
			res, err := runHistory(c, work, idx, hr)
			if err != nil {
				c.Inconclusive(err.Error())
				continue
			}
			c.Eval(1)
			reportProbs(c, "C03", res.Probs, res.Name)
			st := hist.CheckReads(c, "C03", res.H, res.M)
			addReadStats(c, st)
			pairs := hist.CheckCommitOrder(c, "C03", res.H)
			c.Count("commit.ordered_pairs_checked", pairs)
			addSchedCoverage(c, res.S)
			ops := porcupineHistory(res.H)
			r, _ := porcupine.CheckOperationsVerbose(regModel, ops, 90*time.Second)
			c.Count("porcupine.ops", int64(len(ops)))
			switch r {
			case porcupine.Illegal:
				c.Violation("C03|porcupine|illegal", "commit/read history is not linearizable as per-key registers", res.Name)
			case porcupine.Unknown:
				c.Inconclusive("porcupine timeout")
			}
			nAsync, nSync, nErr := 0, 0, 0
			for _, t := range res.H.Txns {
				if t.CommitTs != 0 {
					if t.Async {
						nAsync++
					} else {
						nSync++
					}
				} else if t.CommitErr != "" {
					nErr++
				}
			}
			c.Count("commit.async_acked", int64(nAsync))
			c.Count("commit.sync_acked", int64(nSync))
			c.Count("commit.rejected", int64(nErr))
			c.Distinct(fmt.Sprintf("%s|async=%v|sync=%v|rejected=%v", res.Name, nAsync > 0, nSync > 0, nErr > 0))
			if idx <= 2 {
				c.Sample(histSample(res))
			}
			_ = res.DB.Close()
			_ = os.RemoveAll(res.Dir)
		}
	}
	if c.Counter("commit.ordered_pairs_checked") == 0 || c.Counter("ev.memtable.rotate") == 0 {
		c.Inconclusive("no ordered commit pairs or no memtable rotation observed")
	}
	c.CheckRaces(nil, "", "")
	c.Assume("size-limit and closed-database rejections are exercised in C28 and C38; here rejections are conflicts and ErrBlockedWrites (commits racing with a DropPrefix of an unrelated prefix)")
}
