package props

import (
	"fmt"
	"math/rand"
	"os"
	"path/filepath"
	"sync"

	badger "github.com/dgraph-io/badger/v4"
	"github.com/dgraph-io/badger/v4/options"

	"github.com/dgraph-io/badger/v4/y"

	"verif/h/core"
	"verif/h/drv"
	"verif/h/gen"
	"verif/h/hist"
	"verif/h/model"
	"verif/h/sched"
)

// drvOptions returns options for driver-controlled runs (no background compactors).
func drvOptions(dir string, variant int) (badger.Options, string) {
	o := badger.DefaultOptions(dir).WithLogger(nil)
	o.NumCompactors = 0
	o.MemTableSize = 64 << 10
	o.BaseTableSize = 2 << 10
	o.BaseLevelSize = 8 << 10
	o.LevelSizeMultiplier = 2
	o.TableSizeMultiplier = 2
	o.MaxLevels = 4
	o.NumLevelZeroTables = 3
	o.NumLevelZeroTablesStall = 50
	o.NumMemtables = 4
	o.BlockSize = 512
	o.ValueLogFileSize = 1 << 20
	o.ValueLogMaxEntries = 40
	o.ValueThreshold = 64
	o.BlockCacheSize = 4 << 20
	o.IndexCacheSize = 1 << 20
	o.Compression = options.None
	o.MetricsEnabled = false
	name := "drv-base"
	switch variant % 6 {
	case 1:
		name = "drv-levels3-keep2"
		o.MaxLevels = 3
		o.NumVersionsToKeep = 2
	case 2:
		name = "drv-levels6-snappy"
		o.MaxLevels = 6
		o.Compression = options.Snappy
	case 3:
		name = "drv-inline-values"
		o.ValueThreshold = 2048
	case 4:
		name = "drv-tiny-memtable(l0->l0 prone)"
		o.MemTableSize = 8 << 10
		o.ValueThreshold = 32
	case 5:
		name = "drv-keepinf-aes"
		o.NumVersionsToKeep = 1 << 30
		o.EncryptionKey = []byte("0123456789abcdef")
		o.IndexCacheSize = 2 << 20
	}
	return o, name
}

// driverExpFrac is the fraction of driver writes that carry an expiry (C33 raises it).
var driverExpFrac = 0.2

type shapeRec struct {
	mu     sync.Mutex
	shapes map[string]int
}

func (s *shapeRec) onEv(name string, a, b uint64) {
	if name != "compact.shape" {
		return
	}
	s.mu.Lock()
	s.shapes[fmt.Sprintf("L%d->L%d top=%d bot=%d", a>>32, a&0xffffffff, min(int(b>>32), 6), min(int(b&0xffffffff), 6))]++
	s.mu.Unlock()
}

// driverRun runs one random driver history.
func driverRun(c *core.Ctx, id string, work string, idx int, managed bool, r *rand.Rand, steps int, gc bool, sr *shapeRec) {
	driverRunX(c, id, work, idx, managed, r, steps, gc, nil, nil)
}

// driverRunX is driverRun with an options tweak and an extra oracle called after every checked step.
func driverRunX(c *core.Ctx, id string, work string, idx int, managed bool, r *rand.Rand, steps int, gc bool,
	tweak func(o *badger.Options), extra func(w *drv.World, step string)) {
	dir := filepath.Join(work, fmt.Sprintf("d%d", idx))
	_ = os.MkdirAll(dir, 0o755)
	defer os.RemoveAll(dir)
	opt, name := drvOptions(dir, idx)
	if tweak != nil {
		tweak(&opt)
	}
	db, err := drv.Open(opt, managed)
	if err != nil {
		c.Inconclusive("open: " + err.Error())
		return
	}
	w := &drv.World{C: c, Sig: id, DB: db, Opt: opt, Managed: managed, M: model.New(), R: r, Keys: gen.KeySet(r, 10+r.Intn(30), 8), NextTs: 5}
	if idx%2 == 1 {
		w.Locality = 2 + idx%4 // L0 tables with different, partly overlapping key ranges
		w.Pivot = idx%4 == 3   // ... that again and again begin or end at one pivot key
	}
	defer func() {
		w.CloseSnapshots()
		_ = w.DB.Close()
	}()
	c.Eval(1)
	delFrac, expFrac := 0.25, driverExpFrac
	if gc {
		// value-log GC re-inserts versions shadowed by a delete or an expired entry (the listed C15
		// finding); checks other than C15 that include GC steps therefore write overwrites only
		delFrac, expFrac = 0, 0
	}
	for s := 0; s < steps && c.Violations() == 0; s++ {
		step := ""
		switch x := r.Intn(100); {
		case x < 51:
			if err := w.RandomCommit(delFrac, expFrac); err != nil {
				c.Violation(id+"|commit-error", err.Error(), w.Witness())
				return
			}
			continue
		case x < 55:
			// rotate with the flusher held: a few more commits land in the new memtable while the
			// rotated one is still unflushed, and every read must merge both with the levels
			if gc {
				continue
			}
			if !w.FlushHeld(func() {
				for j := 0; j < 1+r.Intn(4); j++ {
					_ = w.RandomCommit(delFrac, expFrac)
				}
				st := w.CheckInvariance("flush-held")
				c.Count("invariance.reads_checked", st.Gets+st.IterItems)
				c.Count("step.flush-held", 1)
			}) {
				continue
			}
			step = "flush"
		case x < 66:
			if !gc && r.Intn(3) == 0 {
				// the flush happens at the very moment a reader of the invariance check pins the
				// memtables: between what that reader looked at before and what it looks at next the
				// data moves from the memtable list to a level-0 table
				n := w.FlushAtPinAfter(r.Intn(3)*r.Intn(120), func() {
					st := w.CheckInvariance("flush-at-pin")
					c.Count("invariance.reads_checked", st.Gets+st.IterItems)
				})
				w.Flush() // nothing left to flush; moves the key window like every flush
				if n == 0 {
					continue
				}
				c.Count("step.flush-at-pin", 1)
				step = "flush"
				break
			}
			if !w.Flush() {
				continue
			}
			step = "flush"
		case x < 80:
			ok, what := w.CompactPicked(r.Intn(3))
			if !ok {
				continue
			}
			step = "compact-" + what
		case x < 85:
			if !w.CompactForce(r.Intn(opt.MaxLevels-1), 1+r.Intn(2)) {
				continue
			}
			step = "compact-forced"
		case x < 90:
			if !w.CompactL0ToL0() {
				continue
			}
			step = "compact-L0toL0"
		case x < 93:
			w.OpenSnapshot()
			continue
		case x < 96:
			w.CloseSnapshot()
			continue
		case x < 98:
			w.SetDiscardTs()
			continue
		default:
			if gc {
				if !w.GC([]float64{0.01, 0.5}[r.Intn(2)]) {
					continue
				}
				step = "gc"
			} else {
				if !w.CompactLmax() {
					continue
				}
				step = "compact-Lmax"
			}
		}
		st := w.CheckInvariance(step)
		c.Count("invariance.reads_checked", st.Gets+st.IterItems)
		c.Count("step."+step, 1)
		if extra != nil {
			extra(w, step)
		}
	}
	if extra != nil {
		extra(w, "end")
	}
	c.Distinct(fmt.Sprintf("%s|managed=%v|locality=%v", name, managed, w.Locality > 0))
	if idx < 2 {
		c.Sample(map[string]any{"options": name, "managed": managed, "last_steps": w.Steps[max(0, len(w.Steps)-25):]})
	}
}

// l0ToL0Scenario builds the shape "older oversized L0 table + >=4 newer L0 tables, one of which holds
// a tombstone" and lets compactor 0 run L0->L0.
func l0ToL0Scenario(c *core.Ctx, id string, work string, idx int, r *rand.Rand) {
	dir := filepath.Join(work, fmt.Sprintf("l0-%d", idx))
	_ = os.MkdirAll(dir, 0o755)
	defer os.RemoveAll(dir)
	opt, _ := drvOptions(dir, 4)
	opt.NumLevelZeroTables = 40
	opt.ValueThreshold = 1024 // pads stay inline so that the merged table exceeds 2x MemTableSize
	db, err := drv.Open(opt, false)
	if err != nil {
		c.Inconclusive("open: " + err.Error())
		return
	}
	w := &drv.World{C: c, Sig: id + "|l0tol0", DB: db, Opt: opt, M: model.New(), R: r, Keys: gen.KeySet(r, 12, 6), ValSizes: []int{24, 30}}
	defer func() { _ = w.DB.Close() }()
	c.Eval(1)
	// phase 1: several tables of live data, merged by a first L0->L0 into one big table
	n1 := 5 + r.Intn(4)
	for t := 0; t < n1; t++ {
		for i := 0; i < 6+r.Intn(8); i++ {
			_ = w.RandomCommit(0, 0)
		}
		// pad so that the merged table exceeds twice the memtable size
		for i := 0; i < 8; i++ {
			_, _ = w.Commit([]drv.WriteSpec{{Key: []byte(fmt.Sprintf("pad%d-%d", t, i)), Len: 400}})
		}
		w.Flush()
	}
	if !w.CompactL0ToL0() {
		c.Inconclusive("first L0->L0 compaction was not picked")
		return
	}
	w.CheckInvariance("compact-L0toL0")
	// phase 2: newer small tables with deletes and overwrites of phase-1 keys
	n2 := 4 + r.Intn(3)
	for t := 0; t < n2; t++ {
		for i := 0; i < 3+r.Intn(5); i++ {
			_ = w.RandomCommit(0.5, 0)
		}
		w.Flush()
	}
	l0 := len(w.DB.VerifLevelOrder(0))
	if !w.CompactL0ToL0() {
		c.Inconclusive("second L0->L0 compaction was not picked")
		return
	}
	left := len(w.DB.VerifLevelOrder(0))
	c.Count("l0tol0.tables_left_out_by_second_compaction", int64(left-1))
	_ = l0
	st := w.CheckInvariance("compact-L0toL0-leaving-out-older-table")
	c.Count("invariance.reads_checked", st.Gets+st.IterItems)
	c.Count("step.compact-L0toL0-leaving-out-older-table", 1)
	c.Distinct(fmt.Sprintf("l0tol0|n1=%d|n2=%d|leftout=%v", n1, n2, left > 1))
}

// boundaryScenario: a table on level n whose biggest key is the tombstone of K, and a table on level
// n+1 whose smallest key is an older version of K (table boundaries carry versions); the production
// picker then compacts level n into n+1. K must stay deleted.
func boundaryScenario(c *core.Ctx, id string, work string, idx int, r *rand.Rand) {
	dir := filepath.Join(work, fmt.Sprintf("bnd-%d", idx))
	_ = os.MkdirAll(dir, 0o755)
	defer os.RemoveAll(dir)
	opt, _ := drvOptions(dir, 0)
	opt.MaxLevels = 4 + idx%3
	opt.MemTableSize = 1 << 20
	db, err := drv.Open(opt, false)
	if err != nil {
		c.Inconclusive("open: " + err.Error())
		return
	}
	w := &drv.World{C: c, Sig: id + "|boundary", DB: db, Opt: opt, M: model.New(), R: r, Keys: gen.KeySet(r, 4, 4)}
	defer func() { _ = w.DB.Close() }()
	c.Eval(1)
	last := opt.MaxLevels - 1
	pushDown := func(to int) {
		for l := 0; l < to; l++ {
			for i := 0; i < 4 && w.CompactForce(l, 1); i++ {
			}
		}
	}
	// filler below every other key, large enough for the base level to move above the last level
	for b := 0; b < 10; b++ {
		var specs []drv.WriteSpec
		for i := 0; i < 100; i++ {
			specs = append(specs, drv.WriteSpec{Key: []byte(fmt.Sprintf("A%02d-%04d", b, i)), Len: 40})
		}
		_, _ = w.Commit(specs)
	}
	w.Flush()
	pushDown(last)
	// Y: older version of K and larger keys, pushed to the last level (does not overlap the filler)
	K := []byte("k5")
	_, _ = w.Commit([]drv.WriteSpec{{Key: K, Len: 40}, {Key: []byte("k6"), Len: 40}, {Key: []byte("k7"), Len: 40}})
	w.Flush()
	pushDown(last)
	// T: smaller keys and the delete of K, pushed to the level above
	_, _ = w.Commit([]drv.WriteSpec{{Key: []byte("k3"), Len: 40}, {Key: []byte("k4"), Len: 40}})
	_, _ = w.Commit([]drv.WriteSpec{{Key: K, Del: true}})
	w.AdvanceWatermark()
	w.Flush()
	pushDown(last - 1)
	lvlT, lvlY := -1, -1
	for _, t := range w.DB.Tables() {
		if string(y.ParseKey(t.Right)) == "k5" && string(y.ParseKey(t.Left)) != "k5" {
			lvlT = t.Level
		}
		if string(y.ParseKey(t.Left)) == "k5" {
			lvlY = t.Level
		}
	}
	if lvlT < 1 || lvlY != lvlT+1 {
		c.Inconclusive(fmt.Sprintf("boundary scenario: layout not reached (tombstone table on L%d, older version on L%d, base level L%d)", lvlT, lvlY, w.DB.VerifBaseLevel()))
		return
	}
	w.CheckInvariance("boundary-layout")
	if !w.CompactForce(lvlT, 1) {
		c.Inconclusive("boundary scenario: the level compaction was not picked")
		return
	}
	st := w.CheckInvariance("compact-level-with-boundary-tombstone")
	c.Count("invariance.reads_checked", st.Gets+st.IterItems)
	c.Count("step.compact-level-with-boundary-tombstone", 1)
	c.Distinct(fmt.Sprintf("boundary|L%d->L%d|levels=%d", lvlT, lvlY, opt.MaxLevels))
}

// lmaxScenario builds >10 MiB of stale data on the last level and runs an Lmax->Lmax rewrite.
func lmaxScenario(c *core.Ctx, id string, work string, idx int, r *rand.Rand) {
	dir := filepath.Join(work, fmt.Sprintf("lmax-%d", idx))
	_ = os.MkdirAll(dir, 0o755)
	defer os.RemoveAll(dir)
	opt, _ := drvOptions(dir, 0)
	opt.MemTableSize = 16 << 20
	opt.ValueThreshold = 1 << 20
	opt.BaseTableSize = 16 << 20
	opt.BaseLevelSize = 64 << 20
	opt.BlockSize = 4096
	opt.MaxLevels = 3
	db, err := drv.Open(opt, false)
	if err != nil {
		c.Inconclusive("open: " + err.Error())
		return
	}
	w := &drv.World{C: c, Sig: id + "|lmax", DB: db, Opt: opt, M: model.New(), R: r, Keys: gen.KeySet(r, 12, 6)}
	defer func() { w.CloseSnapshots(); _ = w.DB.Close() }()
	c.Eval(1)
	w.OpenSnapshot() // pins the discard watermark so expired entries are written as stale keys
	for i := 0; i < 10; i++ {
		_ = w.RandomCommit(0.2, 0.2)
	}
	for i := 0; i < 180; i++ {
		_, err := w.Commit([]drv.WriteSpec{{Key: []byte(fmt.Sprintf("stale%03d", i)), Len: 64 << 10, Meta: 1, Expires: hist.FarPast()}})
		if err != nil {
			c.Violation(id+"|lmax|commit-error", err.Error(), nil)
			return
		}
	}
	// one flush, one compaction: the rewrite picker wants >= 10 MiB of stale data in ONE table
	w.Flush()
	for i := 0; i < 6 && w.CompactForce(0, 1); i++ {
	}
	w.CheckInvariance("compact-forced")
	w.CloseSnapshots()
	var stale uint32
	for _, t := range w.DB.Tables() {
		stale += t.StaleDataSize
	}
	c.Count("lmax.stale_bytes_before", int64(stale))
	_ = w.RandomCommit(0.3, 0) // moves the watermark past the stale versions
	w.SettleWatermark()
	if !w.CompactLmax() {
		c.Inconclusive(fmt.Sprintf("Lmax->Lmax rewrite was not picked (stale=%d discardTs=%d tables=%v)", stale, w.DB.VerifDiscardTs(), w.Witness()["tables"]))
		return
	}
	st := w.CheckInvariance("compact-Lmax")
	c.Count("invariance.reads_checked", st.Gets+st.IterItems)
	c.Count("step.compact-Lmax", 1)
	c.Distinct("lmax-rewrite")
}

// C12 flushes and compactions never change reads at or above the discard watermark.
func C12(c *core.Ctx) {
	c.Rule("driver histories with no background compactors: PRNG-chosen sequences of {commit (sets, deletes, expired entries, value-log values), rotate+flush, " +
		"production-picker compaction as compactor 0/1/2, forced level compaction, back-dated L0->L0, Lmax->Lmax rewrite, open/close snapshot, SetDiscardTs} over 6 " +
		"option sets in normal and managed mode; after every flush/compaction the read-invariance oracle reads all keys (Get + forward/reverse iteration) now, through " +
		"every open snapshot and (managed) at sampled timestamps >= the discard ts and compares with the model; targeted families: L0->L0 leaving out an older oversized " +
		"L0 table, an Lmax->Lmax rewrite over >10 MiB stale data, and a level-to-level compaction of a table that ends in the tombstone of a key whose older version starts a table on the next level; distinct = compaction shapes (level pair, top/bot table counts) observed through the hook plus scenario classes")
	work := c.WorkDir()
	defer os.RemoveAll(work)
	r := c.Rand("c12")
	sr := &shapeRec{shapes: map[string]int{}}
	sched.Install(sched.Config{OnEv: sr.onEv})
	defer sched.Uninstall()
	n := c.Pick(24, 240)
	for i := 0; i < n; i++ {
		driverRun(c, "C12", work, i, i%3 == 2, r, c.Pick(220, 400), false, sr)
	}
	for i := 0; i < c.Pick(6, 40); i++ {
		l0ToL0Scenario(c, "C12", work, i, r)
	}
	for i := 0; i < c.Pick(1, 3); i++ {
		lmaxScenario(c, "C12", work, i, r)
	}
	for i := 0; i < c.Pick(3, 12); i++ {
		boundaryScenario(c, "C12", work, i, r)
	}
	sr.mu.Lock()
	for k, v := range sr.shapes {
		c.Distinct("shape|" + k)
		c.Count("shape."+k, int64(v))
	}
	sr.mu.Unlock()
	for _, need := range []string{"step.flush", "step.compact-L0toL0", "step.compact-Lmax", "step.compact-L0toL0-leaving-out-older-table"} {
		if c.Counter(need) == 0 {
			c.Inconclusive("coverage threshold not met: " + need)
		}
	}
	c.Assume("value-log GC is excluded (C15); concurrent compactions on adjacent ranges are exercised by the background-compactor histories of C01/C05")
}
