// Package drv is the deterministic flush/compaction/GC driver (E3): badger runs with no background
// compactors and the harness decides, from a seeded PRNG, when memtables rotate and which
// production picker runs next. After every step the read-invariance oracle compares all reads at
// the timestamps that must stay stable with the MVCC model.
package drv

import (
	"bytes"
	"errors"
	"fmt"
	"math/rand"
	"sort"
	"sync/atomic"
	"time"

	badger "github.com/dgraph-io/badger/v4"

	"verif/h/core"
	"verif/h/gen"
	"verif/h/hist"
	"verif/h/model"
	"verif/h/sched"
)

// Snapshot is an open read transaction that must keep seeing the same data.
type Snapshot struct {
	Txn    *badger.Txn
	ReadTs uint64
}

// World couples a DB with its model.
type World struct {
	C       *core.Ctx
	Sig     string
	DB      *badger.DB
	Opt     badger.Options
	Managed bool
	M       *model.DB
	R       *rand.Rand
	Keys    [][]byte
	Snaps   []*Snapshot
	Steps   []string
	NextTs  uint64 // managed: next commit timestamp
	Discard uint64 // managed: current discard ts
	MaxU    uint64 // upper bound of every discard timestamp compaction may have used so far
	nTok    int
	// shapes of compactions observed through the hook (filled by the caller's event handler)
	GCOK int
	// NoDeleteAfterGC: set when a check must avoid the known GC resurrection defect.
	ValSizes []int
	// DiscardFrac is the fraction of writes carrying the discard-earlier-versions bit.
	DiscardFrac float64
	// NonMonotonic (managed mode): commit at arbitrary timestamps above the discard ts, including
	// timestamps used before.
	NonMonotonic bool
	// PerKeyMonotone restricts NonMonotonic so that a key is never written below its newest version.
	PerKeyMonotone bool
	// Locality > 0: the keys of random commits come from a window of that many consecutive keys (in
	// sorted order) which moves at every flush, so that L0 tables cover different, partly
	// overlapping key ranges (the compaction pickers reason about ranges).
	Locality int
	// Pivot (with Locality): every window starts or ends at one fixed key, so that this key is again
	// and again the biggest key of one table and the smallest of another, on the same or on adjacent
	// levels (the pickers compare table boundaries, which carry versions).
	Pivot bool
	// NoWide (with Locality): never draw a wide window, so that tables stay small and disjoint
	NoWide bool
	winLo  int
	sorted [][]byte
}

// Open opens a DB for the driver (no background compactors).
func Open(opt badger.Options, managed bool) (*badger.DB, error) {
	if managed {
		return badger.OpenManaged(opt)
	}
	return badger.Open(opt)
}

func (w *World) log(format string, a ...any) {
	s := fmt.Sprintf(format, a...)
	w.Steps = append(w.Steps, s)
	if len(w.Steps) > 400 {
		w.Steps = w.Steps[len(w.Steps)-400:]
	}
}

// Tok returns a fresh unique token.
func (w *World) Tok(prefix string) string {
	w.nTok++
	return fmt.Sprintf("%s%d", prefix, w.nTok)
}

// Witness returns the recent step log.
func (w *World) Witness() map[string]any {
	return map[string]any{"steps": append([]string(nil), w.Steps...), "managed": w.Managed, "tables": tableSummary(w.DB)}
}

func tableSummary(db *badger.DB) []string {
	var out []string
	for _, t := range db.Tables() {
		out = append(out, fmt.Sprintf("L%d id=%d [%x .. %x] keys=%d maxv=%d stale=%d", t.Level, t.ID, t.Left, t.Right, t.KeyCount, t.MaxVersion, t.StaleDataSize))
	}
	if len(out) > 60 {
		out = out[:60]
	}
	return out
}

// WriteSpec describes one write of a transaction.
type WriteSpec struct {
	Key     []byte
	Del     bool
	Len     int
	Meta    byte
	Expires uint64
	Discard bool
}

// Commit applies a transaction of the given writes and updates the model. It returns the commit ts.
func (w *World) Commit(specs []WriteSpec) (uint64, error) {
	var txn *badger.Txn
	if w.Managed {
		txn = w.DB.NewTransactionAt(w.NextTs, true)
	} else {
		txn = w.DB.NewTransaction(true)
	}
	defer txn.Discard()
	vers := map[string]model.Ver{}
	for _, s := range specs {
		w.nTok++
		if s.Del {
			if err := txn.Delete(append([]byte{}, s.Key...)); err != nil {
				return 0, err
			}
			vers[string(s.Key)] = model.Ver{Del: true}
			continue
		}
		tok := fmt.Sprintf("d%d", w.nTok)
		e := badger.NewEntry(append([]byte{}, s.Key...), gen.Expand(tok, s.Len))
		v := model.Ver{Token: tok, Len: s.Len, UserMeta: s.Meta, ExpiresAt: s.Expires, Discard: s.Discard}
		if s.Meta != 0 {
			e = e.WithMeta(s.Meta)
		}
		if s.Expires != 0 {
			e.ExpiresAt = s.Expires
		}
		if s.Discard {
			e = e.WithDiscard()
		}
		if err := txn.SetEntry(e); err != nil {
			return 0, err
		}
		vers[string(s.Key)] = v
	}
	var ts uint64
	if w.Managed {
		ts = w.NextTs
		if w.NonMonotonic {
			lo := w.Discard + 1
			if w.PerKeyMonotone {
				for _, s := range specs {
					if vs := w.M.M[string(s.Key)]; len(vs) > 0 && vs[0].Ts > lo {
						lo = vs[0].Ts
					}
				}
			}
			hi := w.NextTs + 2
			if hi < lo {
				hi = lo
			}
			ts = lo + uint64(w.R.Int63n(int64(hi-lo+1)))
		}
		if ts >= w.NextTs {
			w.NextTs = ts + 1
		}
		if err := txn.CommitAt(ts, nil); err != nil {
			return 0, err
		}
	} else {
		if err := txn.Commit(); err != nil {
			return 0, err
		}
		ts = w.DB.VerifNextTxnTs() - 1
	}
	for k, v := range vers {
		v.Ts = ts
		w.M.Put(k, v)
	}
	return ts, nil
}

// RandomCommit writes a random transaction.
func (w *World) RandomCommit(delFrac, expFrac float64) error {
	n := 1 + w.R.Intn(4)
	var specs []WriteSpec
	seen := map[string]bool{}
	sizes := w.ValSizes
	if len(sizes) == 0 {
		sizes = []int{24, 40, 64, 65, 300}
	}
	for i := 0; i < n; i++ {
		k := w.Keys[w.R.Intn(len(w.Keys))]
		if w.Locality > 0 {
			if w.sorted == nil {
				w.sorted = append([][]byte{}, w.Keys...)
				sort.Slice(w.sorted, func(i, j int) bool { return bytes.Compare(w.sorted[i], w.sorted[j]) < 0 })
			}
			k = w.sorted[(w.winLo+w.R.Intn(w.Locality))%len(w.sorted)]
		}
		if seen[string(k)] {
			continue
		}
		seen[string(k)] = true
		s := WriteSpec{Key: k, Len: sizes[w.R.Intn(len(sizes))]}
		switch {
		case w.R.Float64() < delFrac:
			s.Del = true
		case w.R.Float64() < w.DiscardFrac:
			s.Discard = true
		case w.R.Float64() < expFrac:
			s.Meta = byte(1 + w.R.Intn(200))
			if w.R.Intn(2) == 0 {
				s.Expires = hist.FarPast()
			} else {
				s.Expires = hist.FarFuture()
			}
		}
		specs = append(specs, s)
	}
	ts, err := w.Commit(specs)
	if err == nil {
		w.log("commit ts=%d n=%d", ts, len(specs))
	}
	return err
}

// Flush rotates the memtable and waits until it is an L0 table.
func (w *World) Flush() bool {
	ok, err := w.DB.VerifRotateMemtable()
	if err != nil {
		w.C.Violation(w.Sig+"|flush-error", err.Error(), w.Witness())
		return false
	}
	if !w.DB.VerifWaitFlushed(20 * time.Second) {
		w.C.Inconclusive("flush did not finish within 20s")
		return false
	}
	if ok {
		w.log("flush -> L0 %v", w.DB.VerifLevelOrder(0))
	}
	if w.Locality > 0 {
		w.winLo = w.R.Intn(len(w.Keys))
		if w.R.Intn(3) == 0 && !w.NoWide { // sometimes a wide table spanning the others
			w.Locality = 2 + w.R.Intn(len(w.Keys))
		} else {
			w.Locality = 2 + w.R.Intn(4)
		}
		if w.Pivot {
			p := len(w.Keys) / 2
			w.Locality = 2 + w.R.Intn(5)
			if w.R.Intn(2) == 0 {
				w.winLo = p // the pivot is the smallest key of the next table
			} else {
				w.winLo = (p - w.Locality + 1 + len(w.Keys)) % len(w.Keys) // ... or its biggest
			}
		}
	}
	return ok
}

// FlushHeld rotates the memtable while the flusher is held at its first schedule point, runs during()
// with the rotated memtable still unflushed (reads must merge it with the active one and the
// levels), then releases the flusher and waits for the flush. Returns false if nothing was rotated.
func (w *World) FlushHeld(during func()) bool {
	hold := make(chan struct{})
	var holding, held atomic.Bool
	holding.Store(true)
	hook := func(name string) {
		if name == "flush.beforeCreate" && holding.Load() {
			held.Store(true)
			<-hold
		}
	}
	ownSched := !sched.Installed()
	if ownSched {
		sched.Install(sched.Config{})
	}
	sched.PointHook.Store(&hook)
	release := func() {
		if holding.Swap(false) {
			close(hold)
		}
	}
	defer func() {
		release()
		sched.PointHook.Store(nil)
		if ownSched {
			sched.Uninstall()
		}
	}()
	ok, err := w.DB.VerifRotateMemtable()
	if err != nil {
		w.C.Violation(w.Sig+"|flush-error", err.Error(), w.Witness())
		return false
	}
	if !ok {
		return false
	}
	deadline := time.Now().Add(5 * time.Second)
	for !held.Load() && time.Now().Before(deadline) {
		time.Sleep(200 * time.Microsecond)
	}
	if !held.Load() {
		release()
		w.DB.VerifWaitFlushed(20 * time.Second)
		return false
	}
	w.log("rotate with the flusher held")
	during()
	release()
	if !w.DB.VerifWaitFlushed(20 * time.Second) {
		w.C.Inconclusive("flush did not finish within 20s")
		return false
	}
	w.log("flusher released -> L0 %v", w.DB.VerifLevelOrder(0))
	if w.Locality > 0 {
		w.winLo = w.R.Intn(len(w.Keys))
	}
	return true
}


// FlushAtPin runs f with a schedule-point hook in place: whenever a reader inside f is about to pin
// the memtables (Get, NewIterator, a Stream producer), the active memtable is first rotated and
// flushed to level 0. The move of the data from the memtable list to a table then falls exactly
// between whatever that reader looked at before and what it looks at next. Contents do not change,
// so every oracle that holds for f on a quiescent database must still hold. Returns the number of
// flushes that took place. Only for phases with no write in flight.
func (w *World) FlushAtPin(f func()) int { return w.FlushAtPinAfter(0, f) }

// FlushAtPinAfter is FlushAtPin that lets the first skip readers pin the memtables undisturbed (so
// that the flush meets a later reader: an iterator rather than the first Get).
func (w *World) FlushAtPinAfter(skip int, f func()) int {
	var busy atomic.Bool
	var n, seen atomic.Int64
	hook := func(name string) {
		if name != "memtables.beforePin" || seen.Add(1) <= int64(skip) || !busy.CompareAndSwap(false, true) {
			return
		}
		defer busy.Store(false)
		if ok, err := w.DB.VerifRotateMemtable(); err == nil && ok {
			if w.DB.VerifWaitFlushed(20 * time.Second) {
				n.Add(1)
			}
		}
	}
	ownSched := !sched.Installed()
	if ownSched {
		sched.Install(sched.Config{})
	}
	sched.PointHook.Store(&hook)
	defer func() {
		sched.PointHook.Store(nil)
		if ownSched {
			sched.Uninstall()
		}
	}()
	f()
	if c := n.Load(); c > 0 {
		w.log("%d flushes at the moment a reader pinned the memtables -> L0 %v", c, w.DB.VerifLevelOrder(0))
	}
	return int(n.Load())
}

// noteDiscard records an upper bound, independent of badger's own bookkeeping, of the discard
// timestamp a compaction starting now may use: the managed discard ts, or in normal mode the smallest
// read timestamp of an open snapshot (the newest commit when none is open).
func (w *World) noteDiscard() {
	var u uint64
	if w.Managed {
		u = w.Discard
	} else {
		u = w.DB.VerifNextTxnTs() - 1
		for _, s := range w.Snaps {
			// the read watermark may reach an open transaction's own read timestamp (a compaction
			// at discard ts D keeps the newest version <= D of every key, which is what a reader
			// at D needs), never exceed it
			if s.ReadTs < u {
				u = s.ReadTs
			}
		}
	}
	if u > w.MaxU {
		w.MaxU = u
	}
}

// CompactPicked runs the production picker's first choice (or a random one) with compactor id.
func (w *World) CompactPicked(id int) (bool, string) {
	prios := w.DB.VerifPriorities()
	if len(prios) == 0 {
		return false, ""
	}
	p := prios[0]
	if w.R.Intn(3) == 0 {
		p = prios[w.R.Intn(len(prios))]
	}
	w.noteDiscard()
	ok, err := w.DB.VerifCompact(id, p)
	if err != nil {
		w.C.Violation(w.Sig+"|compact-error", err.Error(), w.Witness())
		return false, ""
	}
	if ok {
		w.log("compact picked L%d score=%.2f adj=%.2f id=%d", p.Level, p.Score, p.Adjusted, id)
	}
	return ok, fmt.Sprintf("picked-L%d", p.Level)
}

// CompactForce forces a compaction of level l (artificial priority, as Flatten does).
func (w *World) CompactForce(l, id int) bool {
	w.noteDiscard()
	ok, err := w.DB.VerifCompact(id, badger.VerifPrio{Level: l, Score: 1.71})
	if err != nil {
		w.C.Violation(w.Sig+"|compact-error", err.Error(), w.Witness())
		return false
	}
	if ok {
		w.log("compact forced L%d id=%d", l, id)
	}
	return ok
}

// CompactL0ToL0 back-dates the tables and asks compactor 0 for an L0->L0 compaction.
func (w *World) CompactL0ToL0() bool {
	w.DB.VerifBackdateTables(11 * time.Second)
	w.noteDiscard()
	before := w.DB.VerifLevelOrder(0)
	ok, err := w.DB.VerifCompact(0, badger.VerifPrio{Level: 0, Score: 0.5, Adjusted: 0.5})
	if err != nil {
		w.C.Violation(w.Sig+"|compact-error", err.Error(), w.Witness())
		return false
	}
	if ok {
		w.log("compact L0->L0 %v -> %v", before, w.DB.VerifLevelOrder(0))
	}
	return ok
}

// CompactLmax back-dates by more than an hour and asks for a last-level rewrite.
func (w *World) CompactLmax() bool {
	w.DB.VerifBackdateTables(2 * time.Hour)
	w.noteDiscard()
	ok, err := w.DB.VerifCompact(2, badger.VerifPrio{Level: w.Opt.MaxLevels - 1})
	if err != nil {
		w.C.Violation(w.Sig+"|compact-error", err.Error(), w.Witness())
		return false
	}
	if ok {
		w.log("compact Lmax->Lmax")
	}
	return ok
}

// GC runs one value-log GC attempt.
func (w *World) GC(ratio float64) bool {
	w.noteDiscard()
	err := w.DB.RunValueLogGC(ratio)
	if err == nil {
		w.GCOK++
		w.log("gc ratio=%v rewrote a file; fids=%v", ratio, w.DB.VerifVlogFids())
		return true
	}
	if !errors.Is(err, badger.ErrNoRewrite) && !errors.Is(err, badger.ErrRejected) {
		w.C.Violation(w.Sig+"|gc-error", err.Error(), w.Witness())
	}
	return false
}

// OpenSnapshot opens a read transaction at the current state (normal) or a chosen ts (managed).
func (w *World) OpenSnapshot() {
	var txn *badger.Txn
	if w.Managed {
		lo := w.Discard
		if lo < 1 {
			lo = 1
		}
		ts := lo
		if w.NextTs > lo+1 {
			ts = lo + uint64(w.R.Int63n(int64(w.NextTs-lo)))
		}
		txn = w.DB.NewTransactionAt(ts, false)
	} else {
		txn = w.DB.NewTransaction(false)
	}
	w.Snaps = append(w.Snaps, &Snapshot{Txn: txn, ReadTs: txn.ReadTs()})
	w.log("open snapshot readTs=%d", txn.ReadTs())
}

// CloseSnapshot closes a random open snapshot.
func (w *World) CloseSnapshot() {
	if len(w.Snaps) == 0 {
		return
	}
	i := w.R.Intn(len(w.Snaps))
	w.Snaps[i].Txn.Discard()
	w.log("close snapshot readTs=%d", w.Snaps[i].ReadTs)
	w.Snaps = append(w.Snaps[:i], w.Snaps[i+1:]...)
}

// AdvanceWatermark (normal mode, no open snapshot) runs an empty read transaction so that the read
// watermark - the discard timestamp of compactions - reaches the newest commit, and waits for it.
func (w *World) AdvanceWatermark() bool {
	if w.Managed || len(w.Snaps) > 0 {
		return false
	}
	want := w.DB.VerifNextTxnTs() - 1
	_ = w.DB.View(func(*badger.Txn) error { return nil })
	deadline := time.Now().Add(2 * time.Second)
	for time.Now().Before(deadline) {
		if w.DB.VerifDiscardTs() >= want {
			return true
		}
		time.Sleep(200 * time.Microsecond)
	}
	return false
}

// SettleWatermark waits (bounded) until the asynchronous read watermark has caught up with the
// transactions that already finished; only meaningful with no open snapshot in normal mode.
func (w *World) SettleWatermark() {
	if w.Managed || len(w.Snaps) > 0 {
		return
	}
	deadline := time.Now().Add(2 * time.Second)
	for time.Now().Before(deadline) {
		if n := w.DB.VerifNextTxnTs(); n < 2 || w.DB.VerifDiscardTs()+2 >= n {
			return
		}
		time.Sleep(200 * time.Microsecond)
	}
}

// CloseSnapshots closes all snapshots.
func (w *World) CloseSnapshots() {
	for _, s := range w.Snaps {
		s.Txn.Discard()
	}
	w.Snaps = nil
}

// SetDiscardTs raises the managed discard timestamp (never above an open snapshot's read ts).
func (w *World) SetDiscardTs() {
	if !w.Managed {
		return
	}
	hi := w.NextTs - 1
	for _, s := range w.Snaps {
		if s.ReadTs < hi {
			hi = s.ReadTs
		}
	}
	if hi <= w.Discard {
		return
	}
	w.Discard += uint64(w.R.Int63n(int64(hi-w.Discard))) + 1
	w.DB.SetDiscardTs(w.Discard)
	w.log("SetDiscardTs(%d)", w.Discard)
}

// readVia reads the full state through txn and returns it as a one-transaction history.
func readVia(txn *badger.Txn, m *model.DB, managed bool) *hist.History {
	rec := &hist.TxnRec{ID: -1, ReadTs: txn.ReadTs(), Managed: managed, Finished: true}
	for i, k := range m.Keys() {
		rr := hist.ReadRec{Kind: "get", Key: k}
		it, err := txn.Get([]byte(k))
		switch {
		case err == nil:
			rr.Found = true
			rr.Got = hist.ReadItemPublic(it, i%2 == 0)
		case errors.Is(err, badger.ErrKeyNotFound):
		default:
			rr.Err = err.Error()
		}
		rec.Reads = append(rec.Reads, rr)
	}
	for n := 0; n < 2; n++ {
		io := badger.DefaultIteratorOptions
		io.Reverse = n == 1
		io.PrefetchValues = n == 0
		rr := hist.ReadRec{Kind: "iter", Rewind: true, Prefetch: 100, Opts: model.IterOpts{Reverse: io.Reverse}}
		if n == 1 {
			rr.Prefetch = -1
		}
		it := txn.NewIterator(io)
		j := 0
		for it.Rewind(); it.Valid(); it.Next() {
			rr.Items = append(rr.Items, hist.ReadItemPublic(it.Item(), j%2 == 0))
			j++
		}
		rr.Exhausted = true
		it.Close()
		rec.Reads = append(rec.Reads, rr)
	}
	return &hist.History{Txns: []*hist.TxnRec{rec}}
}

// CheckInvariance is the read-invariance oracle: reads now, through every open snapshot, and (in
// managed mode) at sampled timestamps >= the discard timestamp must equal the model.
func (w *World) CheckInvariance(step string) hist.Stats {
	total := hist.Stats{ByPath: map[string]int64{}}
	add := func(s hist.Stats) {
		total.Gets += s.Gets
		total.GetsFound += s.GetsFound
		total.Iters += s.Iters
		total.IterItems += s.IterItems
	}
	before := w.C.Violations()
	// now
	add(hist.CheckState(w.C, w.Sig+"|now", w.DB, w.M, hist.StateOpts{Managed: w.Managed}))
	for _, s := range w.Snaps {
		add(hist.CheckReads(w.C, w.Sig+"|snapshot", readVia(s.Txn, w.M, w.Managed), w.M))
	}
	if w.Managed {
		for i := 0; i < 3; i++ {
			lo := w.Discard
			if lo < 1 {
				lo = 1
			}
			if w.NextTs <= lo {
				break
			}
			ts := lo + uint64(w.R.Int63n(int64(w.NextTs-lo)))
			add(hist.CheckState(w.C, w.Sig+"|managed-ts", w.DB, w.M, hist.StateOpts{Managed: true, ReadTs: ts}))
		}
	}
	if w.C.Violations() > before {
		// attach the step log for the reader
		wit := w.Witness()
		wit["failed_after_step"] = step
		w.C.Set("last_failing_steps", wit)
	}
	return total
}
