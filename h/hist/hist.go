// Package hist is the history engine (E1): concurrent clients run generated transactions through
// badger's public API, every call is recorded at the client boundary, commit timestamps are
// recovered from per-transaction marker keys, and offline oracles compare every read with the
// MVCC reference model.
package hist

import (
	"bytes"
	"crypto/sha256"
	"errors"
	"fmt"
	"math/rand"
	"sort"
	"sync"
	"sync/atomic"
	"time"

	badger "github.com/dgraph-io/badger/v4"

	"verif/h/gen"
	"verif/h/model"
)

// FarPast / FarFuture are expiry stamps at least 10^6 s from now (no verdict depends on the clock).
func FarPast() uint64   { return uint64(time.Now().Unix()) - 2000000 }
func FarFuture() uint64 { return uint64(time.Now().Unix()) + 200000000 }

// ItemRec is what a read returned.
type ItemRec struct {
	Key       string
	Version   uint64
	Dead      bool // IsDeletedOrExpired
	ValLen    int
	ValSum    [8]byte
	UserMeta  byte
	ExpiresAt uint64
	Discard   bool
	ValErr    string
	Path      string // value read path used
	Head      string // first bytes of the value (names the writer token when the value is long enough)
}

// ReadRec is one Get or one iterator session.
type ReadRec struct {
	Kind string // get | iter
	Call int64
	// get
	Key   string
	Own   *model.Ver
	Found bool
	Err   string
	Got   ItemRec
	// iter
	Opts      model.IterOpts
	Prefetch  int // -1 = PrefetchValues false
	Seek      []byte
	Rewind    bool
	VFP       []byte // loop condition ValidForPrefix(VFP) instead of Valid()
	Overlay   map[string]model.Ver
	Items     []ItemRec
	Exhausted bool
}

// WriteRec is one Set/SetEntry/Delete call.
type WriteRec struct {
	Key string
	Ver model.Ver
	Err string
}

// TxnRec is one transaction.
type TxnRec struct {
	ID         int
	Client     int
	Update     bool
	Managed    bool
	ReadTs     uint64
	BeginCall  int64
	BeginRet   int64
	Reads      []ReadRec
	Writes     []WriteRec
	CommitCall int64
	CommitRet  int64 // ack time (callback time for CommitWith)
	CommitErr  string
	Finished   bool // Commit/Discard returned
	Async      bool
	Marker     string
	CommitTs   uint64 // resolved after the run (0 = not committed)
	WantTs     uint64 // managed mode: requested commit ts
	Cold       bool   // long-running transaction on a private key
	LateCommit bool   // waited with its writes pending before committing
}

// Pending returns the final pending write per key (later call wins).
func (t *TxnRec) Pending() map[string]model.Ver {
	m := map[string]model.Ver{}
	for _, w := range t.Writes {
		if w.Err == "" {
			m[w.Key] = w.Ver
		}
	}
	return m
}

// History is the product of a run.
type History struct {
	Txns  []*TxnRec
	Clock *atomic.Int64
}

// Mix tunes the workload generator.
type Mix struct {
	Clients       int
	TxnsPerClient int
	Keys          [][]byte
	ValSizes      []int
	ROFrac        float64 // fraction of read-only transactions
	IterFrac      float64 // probability that a read step is an iteration
	DeleteFrac    float64
	MetaFrac      float64 // SetEntry with user meta / expiry / discard
	ExpireFrac    float64 // of SetEntry: far-past or far-future expiry
	AsyncFrac     float64 // CommitWith
	HeldFrac      float64 // chance per step to open a long-lived snapshot txn
	MaxReads      int
	MaxWrites     int
	BlindFrac     float64 // writes without preceding read of that key
	OwnReadFrac   float64 // after writes, read own keys / iterate
	AllVersions   bool    // allow AllVersions iterators (only exact when nothing is compacted away)
	SinceTs       bool
	WriteSkew     bool // generate write-skew shaped transactions
	DiscardFrac   float64
	LongRWFrac    float64 // RW transactions that stay open until many other commits happened
	LongRWCommits int64
	// LateCommitFrac: RW transactions that wait, with all their writes pending, until LongRWCommits
	// other commits were acknowledged before they commit (entries are sized and classified when they
	// are set; the state those decisions depend on may move before they are written).
	LateCommitFrac float64
	// ValSizesLate, when set, replaces ValSizes once half of all transactions were started (the size
	// distribution - and with VLogPercentile the value threshold - drifts during the run).
	ValSizesLate []int
	MinWrites    int
	ReadAll      bool // read-only transactions read every key
	NoReads      bool // blind writers only
}

// DefaultMix returns a general-purpose mix.
func DefaultMix(keys [][]byte) Mix {
	return Mix{Clients: 8, TxnsPerClient: 60, Keys: keys, ValSizes: []int{24, 40, 63, 64, 65, 200, 1023, 1024, 1025, 3000},
		ROFrac: 0.35, IterFrac: 0.3, DeleteFrac: 0.15, MetaFrac: 0.3, ExpireFrac: 0.3, AsyncFrac: 0.15, HeldFrac: 0.05,
		MaxReads: 5, MaxWrites: 4, BlindFrac: 0.3, OwnReadFrac: 0.5}
}

// Engine runs a workload against one DB.
type Engine struct {
	DB      *badger.DB
	Managed bool
	Mix     Mix
	Seed    int64
	Clock   atomic.Int64
	nextTxn atomic.Int64
	mu      sync.Mutex
	txns    []*TxnRec
	// managed mode: timestamp allocator (harness-chosen, monotone so that the conflict contract holds)
	mts atomic.Uint64
	// Acks counts acknowledged commits (used by long-running transactions).
	Acks atomic.Int64
}

// Sum8 is the value digest used in read records.
func Sum8(b []byte) [8]byte { return sum8(b) }

func sum8(b []byte) [8]byte {
	h := sha256.Sum256(b)
	var o [8]byte
	copy(o[:], h[:8])
	return o
}

func head(v []byte) string {
	for i, b := range v {
		if b == '|' && i < 24 {
			return string(v[:i])
		}
		if i >= 24 {
			break
		}
	}
	return ""
}

// ReadItemPublic records an item for other packages (value path chosen by the flag).
func ReadItemPublic(it *badger.Item, viaValue bool) ItemRec {
	if viaValue {
		return readItem(it, "value")
	}
	return readItem(it, "copy")
}

func readItem(it *badger.Item, path string) ItemRec {
	r := ItemRec{Key: string(it.KeyCopy(nil)), Version: it.Version(), Dead: it.IsDeletedOrExpired(), UserMeta: it.UserMeta(),
		ExpiresAt: it.ExpiresAt(), Discard: it.DiscardEarlierVersions(), Path: path}
	switch path {
	case "value":
		err := it.Value(func(v []byte) error {
			r.ValLen, r.ValSum, r.Head = len(v), sum8(v), head(v)
			return nil
		})
		if err != nil {
			r.ValErr = err.Error()
		}
	default:
		v, err := it.ValueCopy(nil)
		if err != nil {
			r.ValErr = err.Error()
		}
		r.ValLen, r.ValSum, r.Head = len(v), sum8(v), head(v)
	}
	return r
}

type client struct {
	e    *Engine
	id   int
	r    *rand.Rand
	held *heldTxn
}

type heldTxn struct {
	txn *badger.Txn
	rec *TxnRec
}

func (e *Engine) newRec(client int, update bool) *TxnRec {
	t := &TxnRec{ID: int(e.nextTxn.Add(1)), Client: client, Update: update, Managed: e.Managed}
	e.mu.Lock()
	e.txns = append(e.txns, t)
	e.mu.Unlock()
	return t
}

func (e *Engine) begin(rec *TxnRec) *badger.Txn {
	rec.BeginCall = e.Clock.Add(1)
	var txn *badger.Txn
	if e.Managed {
		// read at the newest timestamp whose commit has been acknowledged
		ts := e.mts.Load()
		txn = e.DB.NewTransactionAt(ts, rec.Update)
	} else {
		txn = e.DB.NewTransaction(rec.Update)
	}
	rec.ReadTs = txn.ReadTs()
	rec.BeginRet = e.Clock.Add(1)
	return txn
}

func (c *client) key() []byte { return c.e.Mix.Keys[c.r.Intn(len(c.e.Mix.Keys))] }

func (c *client) doGet(txn *badger.Txn, rec *TxnRec, key []byte, pending map[string]model.Ver) {
	rr := ReadRec{Kind: "get", Key: string(key), Call: c.e.Clock.Add(1)}
	if v, ok := pending[string(key)]; ok {
		vv := v
		rr.Own = &vv
	}
	it, err := txn.Get(key)
	switch {
	case err == nil:
		rr.Found = true
		rr.Got = readItem(it, []string{"value", "copy"}[c.r.Intn(2)])
	case errors.Is(err, badger.ErrKeyNotFound):
	default:
		rr.Err = err.Error()
	}
	rec.Reads = append(rec.Reads, rr)
}

func copyOverlay(p map[string]model.Ver) map[string]model.Ver {
	if len(p) == 0 {
		return nil
	}
	o := make(map[string]model.Ver, len(p))
	for k, v := range p {
		o[k] = v
	}
	return o
}

func (c *client) doIter(txn *badger.Txn, rec *TxnRec, pending map[string]model.Ver) {
	m := c.e.Mix
	io := badger.DefaultIteratorOptions
	rr := ReadRec{Kind: "iter", Call: c.e.Clock.Add(1), Overlay: copyOverlay(pending)}
	io.Reverse = c.r.Intn(2) == 0
	switch c.r.Intn(4) {
	case 0:
		io.PrefetchValues = false
		rr.Prefetch = -1
	default:
		io.PrefetchSize = []int{0, 1, 2, 100}[c.r.Intn(4)]
		rr.Prefetch = io.PrefetchSize
	}
	if m.AllVersions && c.r.Intn(4) == 0 {
		io.AllVersions = true
	}
	if m.SinceTs && c.r.Intn(4) == 0 && rec.ReadTs > 1 {
		io.SinceTs = uint64(c.r.Int63n(int64(rec.ReadTs))) + 1
	}
	var seek []byte
	mode := c.r.Intn(5)
	if !m.AllVersions && mode == 4 {
		mode = c.r.Intn(4) // key iterators imply AllVersions, which is only exact with a pinned watermark
	}
	switch mode {
	case 0: // plain rewind
		rr.Rewind = true
	case 1: // prefix option + rewind or seek carrying the prefix
		k := c.key()
		io.Prefix = append([]byte{}, k[:1+c.r.Intn(len(k))]...)
		if c.r.Intn(2) == 0 {
			rr.Rewind = true
			if io.Reverse {
				// badger's documented usage for reverse prefix scans: seek to prefix + 0xFF
				rr.Rewind = false
				seek = append(append([]byte{}, io.Prefix...), 0xFF, 0xFF, 0xFF, 0xFF, 0xFF, 0xFF, 0xFF, 0xFF, 0xFF, 0xFF, 0xFF, 0xFF, 0xFF)
			}
		} else {
			seek = append(append([]byte{}, io.Prefix...), gen.Key(c.r, 3)...)
		}
	case 2: // arbitrary seek, no prefix
		seek = gen.Key(c.r, 8)
		if c.r.Intn(2) == 0 {
			seek = append([]byte{}, c.key()...)
		}
	case 3: // arbitrary seek + ValidForPrefix loop
		seek = append([]byte{}, c.key()...)
		rr.VFP = append([]byte{}, seek[:1+c.r.Intn(len(seek))]...)
		if io.Reverse {
			seek = append(seek, 0xFF, 0xFF)
		}
	default: // key iterator
		k := c.key()
		kio := io
		kio.Prefix = nil
		rr.Opts = model.IterOpts{Reverse: io.Reverse, AllVersions: true, SinceTs: io.SinceTs, OnlyKey: append([]byte{}, k...)}
		it := txn.NewKeyIterator(k, kio)
		rr.Rewind = true
		c.consume(it, &rr, 1000, rec.Update)
		it.Close()
		rec.Reads = append(rec.Reads, rr)
		return
	}
	rr.Opts = model.IterOpts{Reverse: io.Reverse, AllVersions: io.AllVersions, Prefix: io.Prefix, SinceTs: io.SinceTs}
	rr.Seek = seek
	it := txn.NewIterator(io)
	limit := 1000
	if c.r.Intn(3) != 0 {
		limit = 1 + c.r.Intn(6)
	}
	c.consume(it, &rr, limit, rec.Update)
	it.Close()
	rec.Reads = append(rec.Reads, rr)
}

func (c *client) consume(it *badger.Iterator, rr *ReadRec, limit int, update bool) {
	// (read-only transactions only: a Seek puts its key into the read set of an update transaction,
	// and the conflict oracle must know every key that was read)
	if !update && c.r.Intn(2) == 0 {
		// the iterator is re-used: it first stands somewhere else (another Seek, a few steps, no item
		// is looked at), then the recorded positioning follows, often backwards from there
		it.Seek(c.key())
		for i := c.r.Intn(4); i > 0 && it.Valid(); i-- {
			it.Next()
		}
		if c.r.Intn(4) == 0 {
			it.Rewind()
		}
	}
	if rr.Rewind {
		it.Rewind()
	} else {
		it.Seek(rr.Seek)
	}
	valid := func() bool {
		if rr.VFP != nil {
			return it.ValidForPrefix(rr.VFP)
		}
		return it.Valid()
	}
	n := 0
	for ; valid(); it.Next() {
		if n >= limit {
			return
		}
		path := "value"
		if c.r.Intn(2) == 0 {
			path = "copy"
		}
		rr.Items = append(rr.Items, readItem(it.Item(), path))
		n++
	}
	rr.Exhausted = true
}

func (c *client) genWrite(rec *TxnRec, key []byte, n int) (*badger.Entry, model.Ver, bool) {
	m := c.e.Mix
	if c.r.Float64() < m.DeleteFrac {
		return nil, model.Ver{Del: true, Txn: rec.ID}, true
	}
	tok := fmt.Sprintf("t%d.%d", rec.ID, n)
	sz := m.ValSizes[c.r.Intn(len(m.ValSizes))]
	if len(m.ValSizesLate) > 0 && c.e.nextTxn.Load() > int64(m.Clients*m.TxnsPerClient/2) {
		sz = m.ValSizesLate[c.r.Intn(len(m.ValSizesLate))]
	}
	v := model.Ver{Token: tok, Len: sz, Txn: rec.ID}
	e := badger.NewEntry(key, gen.Expand(tok, sz))
	if c.r.Float64() < m.MetaFrac {
		v.UserMeta = byte(1 + c.r.Intn(255))
		e = e.WithMeta(v.UserMeta)
		if c.r.Float64() < m.ExpireFrac {
			if c.r.Intn(2) == 0 {
				v.ExpiresAt = FarPast()
			} else {
				v.ExpiresAt = FarFuture()
			}
			e.ExpiresAt = v.ExpiresAt
		}
		if c.r.Float64() < m.DiscardFrac {
			v.Discard = true
			e = e.WithDiscard()
		}
	}
	return e, v, false
}

// runTxn executes one generated transaction.
func (c *client) runTxn() {
	e := c.e
	m := e.Mix
	update := c.r.Float64() >= m.ROFrac
	rec := e.newRec(c.id, update)
	txn := e.begin(rec)
	pending := map[string]model.Ver{}
	nReads := 1 + c.r.Intn(m.MaxReads)
	var readKeys [][]byte
	long := update && m.LongRWFrac > 0 && c.r.Float64() < m.LongRWFrac
	if long && c.r.Intn(2) == 0 {
		// a long-running transaction that touches only a key private to this client: it must commit
		// however many commits and conflict-log cleanups happen meanwhile
		cold := []byte(fmt.Sprintf("b~cold%02d", c.id))
		c.doGet(txn, rec, cold, pending)
		readKeys = [][]byte{cold}
		rec.Cold = true
		nReads = 0
	}
	if m.NoReads {
		nReads = 0
	}
	for i := 0; i < nReads; i++ {
		if c.r.Float64() < m.IterFrac {
			c.doIter(txn, rec, pending)
		} else {
			k := c.key()
			readKeys = append(readKeys, k)
			c.doGet(txn, rec, k, pending)
		}
	}
	if !update {
		if m.ReadAll {
			for _, k := range m.Keys {
				c.doGet(txn, rec, k, pending)
			}
		}
		txn.Discard()
		rec.Finished = true
		return
	}
	if long {
		start := e.Acks.Load()
		deadline := time.Now().Add(300 * time.Millisecond)
		for e.Acks.Load()-start < m.LongRWCommits && time.Now().Before(deadline) {
			time.Sleep(200 * time.Microsecond)
		}
	}
	nW := 1 + c.r.Intn(m.MaxWrites)
	if nW < m.MinWrites {
		nW = m.MinWrites
	}
	for i := 0; i < nW; i++ {
		var k []byte
		if len(readKeys) > 0 && c.r.Float64() >= m.BlindFrac {
			k = readKeys[c.r.Intn(len(readKeys))]
		} else {
			k = c.key()
		}
		if rec.Cold {
			k = readKeys[0]
		}
		if m.WriteSkew && len(readKeys) >= 2 {
			// write-skew shape: read several keys, write exactly one of them
			k = readKeys[c.r.Intn(len(readKeys))]
		}
		ent, ver, del := c.genWrite(rec, k, i)
		var err error
		if del {
			err = txn.Delete(append([]byte{}, k...))
		} else {
			err = txn.SetEntry(ent)
		}
		w := WriteRec{Key: string(k), Ver: ver}
		if err != nil {
			w.Err = err.Error()
		} else {
			pending[string(k)] = ver
		}
		rec.Writes = append(rec.Writes, w)
		if rec.Cold {
			c.doGet(txn, rec, k, pending)
		} else if c.r.Float64() < m.OwnReadFrac {
			if c.r.Float64() < m.IterFrac {
				c.doIter(txn, rec, pending)
			} else {
				kk := k
				if c.r.Intn(3) == 0 {
					kk = c.key()
				}
				c.doGet(txn, rec, kk, pending)
			}
		}
	}
	// marker
	rec.Marker = fmt.Sprintf("m%08d", rec.ID)
	mtok := fmt.Sprintf("t%d.m", rec.ID)
	mv := model.Ver{Token: mtok, Len: 24, Txn: rec.ID}
	if err := txn.Set([]byte(rec.Marker), gen.Expand(mtok, 24)); err != nil {
		// without its marker the transaction's outcome could not be resolved: give it up
		rec.Writes = append(rec.Writes, WriteRec{Key: rec.Marker, Ver: mv, Err: err.Error()})
		rec.Marker = ""
		rec.CommitErr = "discarded by harness: marker rejected: " + err.Error()
		txn.Discard()
		rec.Finished = true
		return
	} else {
		rec.Writes = append(rec.Writes, WriteRec{Key: rec.Marker, Ver: mv})
	}
	if m.LateCommitFrac > 0 && c.r.Float64() < m.LateCommitFrac {
		start := e.Acks.Load()
		n := m.LongRWCommits
		if n == 0 {
			n = 50
		}
		deadline := time.Now().Add(300 * time.Millisecond)
		for e.Acks.Load()-start < n && time.Now().Before(deadline) {
			time.Sleep(200 * time.Microsecond)
		}
		rec.LateCommit = true
	}
	c.commit(txn, rec)
}

func (c *client) commit(txn *badger.Txn, rec *TxnRec) {
	e := c.e
	async := c.r.Float64() < e.Mix.AsyncFrac
	rec.Async = async
	if e.Managed {
		// allocate the commit timestamp and commit under one lock so that managed commit order is
		// the timestamp order (the managed-mode contract for conflict detection)
		e.mu.Lock()
		ts := e.mts.Load() + 1 + uint64(c.r.Intn(3))
		rec.WantTs = ts
		rec.CommitCall = e.Clock.Add(1)
		err := txn.CommitAt(ts, nil)
		rec.CommitRet = e.Clock.Add(1)
		if err != nil {
			rec.CommitErr = err.Error()
		} else {
			e.mts.Store(ts)
			e.Acks.Add(1)
		}
		e.mu.Unlock()
		rec.Finished = true
		return
	}
	rec.CommitCall = e.Clock.Add(1)
	if async {
		done := make(chan error, 1)
		txn.CommitWith(func(err error) {
			rec.CommitRet = e.Clock.Add(1)
			done <- err
		})
		if err := <-done; err != nil {
			rec.CommitErr = err.Error()
		} else {
			e.Acks.Add(1)
		}
	} else {
		err := txn.Commit()
		rec.CommitRet = e.Clock.Add(1)
		if err != nil {
			rec.CommitErr = err.Error()
		} else {
			e.Acks.Add(1)
		}
	}
	rec.Finished = true
}

func (c *client) heldStep() {
	e := c.e
	if c.held == nil {
		rec := e.newRec(c.id, false)
		c.held = &heldTxn{txn: e.begin(rec), rec: rec}
		return
	}
	for i := 0; i < 2; i++ {
		if c.r.Float64() < e.Mix.IterFrac {
			c.doIter(c.held.txn, c.held.rec, nil)
		} else {
			c.doGet(c.held.txn, c.held.rec, c.key(), nil)
		}
	}
	if c.r.Intn(6) == 0 {
		c.held.txn.Discard()
		c.held.rec.Finished = true
		c.held = nil
	}
}

// Run executes the workload and returns the recorded history.
func (e *Engine) Run() *History {
	var wg sync.WaitGroup
	if e.Managed && e.mts.Load() == 0 {
		e.mts.Store(10)
	}
	for i := 0; i < e.Mix.Clients; i++ {
		wg.Add(1)
		go func(i int) {
			defer wg.Done()
			c := &client{e: e, id: i, r: rand.New(rand.NewSource(e.Seed*1000003 + int64(i)))}
			for n := 0; n < e.Mix.TxnsPerClient; n++ {
				if c.held != nil || c.r.Float64() < e.Mix.HeldFrac {
					c.heldStep()
				}
				c.runTxn()
			}
			if c.held != nil {
				c.heldStep()
				if c.held != nil {
					c.held.txn.Discard()
					c.held.rec.Finished = true
				}
			}
		}(i)
	}
	wg.Wait()
	e.mu.Lock()
	defer e.mu.Unlock()
	sort.Slice(e.txns, func(i, j int) bool { return e.txns[i].ID < e.txns[j].ID })
	return &History{Txns: e.txns, Clock: &e.Clock}
}

// SetManagedTs sets the managed-mode timestamp cursor (e.g. after a re-open).
func (e *Engine) SetManagedTs(ts uint64) { e.mts.Store(ts) }

// ManagedTs returns the newest acknowledged managed commit timestamp.
func (e *Engine) ManagedTs() uint64 { return e.mts.Load() }

// Resolve reads the marker keys and fills CommitTs. It returns problems found while doing so
// (acknowledged commit without marker, rejected commit with marker).
func (h *History) Resolve(db *badger.DB, managed bool) []string {
	var probs []string
	var txn *badger.Txn
	if managed {
		txn = db.NewTransactionAt(^uint64(0), false)
	} else {
		txn = db.NewTransaction(false)
	}
	defer txn.Discard()
	for _, t := range h.Txns {
		if !t.Update || t.Marker == "" {
			continue
		}
		it, err := txn.Get([]byte(t.Marker))
		switch {
		case err == nil:
			t.CommitTs = it.Version()
			v, _ := it.ValueCopy(nil)
			if !bytes.Equal(v, gen.Expand(fmt.Sprintf("t%d.m", t.ID), 24)) {
				probs = append(probs, fmt.Sprintf("marker of txn %d holds a foreign value", t.ID))
			}
			if t.CommitErr != "" {
				probs = append(probs, fmt.Sprintf("rejected-trace: txn %d Commit returned %q but its marker is visible at version %d", t.ID, t.CommitErr, t.CommitTs))
			}
			if managed && t.WantTs != 0 && t.CommitTs != t.WantTs {
				probs = append(probs, fmt.Sprintf("managed-ts: txn %d committed at %d but its marker has version %d", t.ID, t.WantTs, t.CommitTs))
			}
		case errors.Is(err, badger.ErrKeyNotFound):
			if t.Finished && t.CommitErr == "" {
				probs = append(probs, fmt.Sprintf("lost-commit: txn %d Commit returned nil but its marker is not visible", t.ID))
			}
		default:
			probs = append(probs, fmt.Sprintf("marker read error for txn %d: %v", t.ID, err))
		}
	}
	return probs
}

// BuildModel builds the reference model from all committed transactions (on top of base, if any).
func (h *History) BuildModel(base *model.DB) *model.DB {
	m := model.New()
	if base != nil {
		m = base.Clone()
	}
	for _, t := range h.Txns {
		if t.CommitTs == 0 {
			continue
		}
		for k, v := range t.Pending() {
			v.Ts = t.CommitTs
			m.Put(k, v)
		}
	}
	return m
}
