package hist

import (
	"errors"

	badger "github.com/dgraph-io/badger/v4"

	"verif/h/core"
	"verif/h/model"
)

// StateOpts selects what a full state comparison reads.
type StateOpts struct {
	Managed     bool
	ReadTs      uint64 // managed: timestamp to read at (0 = max)
	AllVersions bool   // also compare AllVersions iteration (only exact when nothing was compacted away)
	ExtraKeys   []string
}

// ReadState reads every model key (and extra keys) through Get (both value paths) and full
// forward/reverse iteration (prefetch on and off) in one transaction, and returns it as a recorded
// transaction that CheckReads can judge.
func ReadState(db *badger.DB, m *model.DB, so StateOpts) *History {
	var txn *badger.Txn
	if so.Managed {
		ts := so.ReadTs
		if ts == 0 {
			ts = ^uint64(0)
		}
		txn = db.NewTransactionAt(ts, false)
	} else {
		txn = db.NewTransaction(false)
	}
	defer txn.Discard()
	rec := &TxnRec{ID: -1, ReadTs: txn.ReadTs(), Managed: so.Managed, Finished: true}
	if !so.Managed {
		// a quiescent read of the newest state must see every committed write, whatever number the
		// oracle restarted from after a re-open (a commit whose only entry was a tombstone that
		// compaction removed leaves no trace of its timestamp)
		rec.ReadTs = ^uint64(0)
	}
	keys := m.Keys()
	keys = append(keys, so.ExtraKeys...)
	for i, k := range keys {
		rr := ReadRec{Kind: "get", Key: k}
		it, err := txn.Get([]byte(k))
		switch {
		case err == nil:
			rr.Found = true
			rr.Got = readItem(it, []string{"value", "copy"}[i%2])
		case errors.Is(err, badger.ErrKeyNotFound):
		default:
			rr.Err = err.Error()
		}
		rec.Reads = append(rec.Reads, rr)
	}
	for n := 0; n < 4; n++ {
		io := badger.DefaultIteratorOptions
		io.Reverse = n%2 == 1
		rr := ReadRec{Kind: "iter", Rewind: true, Prefetch: 100}
		if n >= 2 {
			io.PrefetchValues = false
			rr.Prefetch = -1
		}
		if so.AllVersions && n >= 2 {
			io.AllVersions = true
		}
		rr.Opts = model.IterOpts{Reverse: io.Reverse, AllVersions: io.AllVersions}
		it := txn.NewIterator(io)
		j := 0
		for it.Rewind(); it.Valid(); it.Next() {
			rr.Items = append(rr.Items, readItem(it.Item(), []string{"value", "copy"}[j%2]))
			j++
		}
		rr.Exhausted = true
		it.Close()
		rec.Reads = append(rec.Reads, rr)
	}
	return &History{Txns: []*TxnRec{rec}}
}

// CheckState reads the whole state and compares it with the model.
func CheckState(c *core.Ctx, sigPrefix string, db *badger.DB, m *model.DB, so StateOpts) Stats {
	h := ReadState(db, m, so)
	return CheckReads(c, sigPrefix, h, m)
}
