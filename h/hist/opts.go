package hist

import (
	"crypto/rand"
	mrand "math/rand"
	"os"

	badger "github.com/dgraph-io/badger/v4"
	"github.com/dgraph-io/badger/v4/options"
)

// OptVariant describes one option set; String() is used as the distinct-configuration key.
type OptVariant struct {
	Name string
	Opt  badger.Options
}

// SmallOptions returns badger options sized so that rotation, flush, compaction and vlog rotation
// happen after a few dozen commits. variant selects one of a fixed list crossed with r.
func SmallOptions(dir string, variant int, r *mrand.Rand) OptVariant {
	o := badger.DefaultOptions(dir).WithLogger(nil)
	if os.Getenv("VERIF_BADGER_LOG") != "" { // diagnosis only: badger's own log on stderr
		o = badger.DefaultOptions(dir)
	}
	o.MemTableSize = 32 << 10
	o.BaseTableSize = 16 << 10
	o.BaseLevelSize = 48 << 10
	o.LevelSizeMultiplier = 3
	o.TableSizeMultiplier = 2
	o.MaxLevels = 4
	o.NumCompactors = 3
	o.NumLevelZeroTables = 2
	o.NumLevelZeroTablesStall = 4
	o.NumMemtables = 3
	o.BlockSize = 1024
	o.ValueLogFileSize = 1 << 20
	o.ValueLogMaxEntries = 60
	o.ValueThreshold = 64
	o.BlockCacheSize = 4 << 20
	o.IndexCacheSize = 1 << 20
	o.Compression = options.None
	o.NumVersionsToKeep = 1
	o.MetricsEnabled = false
	o.DetectConflicts = true
	name := "base"
	switch variant % 10 {
	case 0:
	case 1:
		name = "snappy+bigthreshold"
		o.Compression = options.Snappy
		o.ValueThreshold = 1024
	case 2:
		name = "zstd+levels7+keep3"
		o.Compression = options.ZSTD
		o.MaxLevels = 7
		o.NumVersionsToKeep = 3
	case 3:
		name = "aes128+percentile0.5"
		o.EncryptionKey = randKey(16)
		o.IndexCacheSize = 2 << 20
		o.VLogPercentile = 0.5
		o.ValueThreshold = 32
	case 4:
		name = "inmemory"
		o.InMemory = true
		o.Dir, o.ValueDir = "", ""
		o.MemTableSize = 256 << 10
		o.ValueThreshold = 32 << 10
	case 5:
		name = "aes256+snappy+levels3"
		o.EncryptionKey = randKey(32)
		o.Compression = options.Snappy
		o.MaxLevels = 3
	case 6:
		name = "memtable64k+keepInf"
		o.MemTableSize = 64 << 10
		o.NumVersionsToKeep = 1 << 30
		o.ValueThreshold = 32
	case 7:
		name = "percentile0.99+syncwrites"
		o.VLogPercentile = 0.99
		o.SyncWrites = true
	case 8:
		name = "noconflicts-off+bloom0.5+verifychk"
		o.BloomFalsePositive = 0.5
		o.VerifyValueChecksum = true
		o.ChecksumVerificationMode = options.OnTableAndBlockRead
	case 9:
		name = "aes192+memtable1m"
		o.EncryptionKey = randKey(24)
		o.MemTableSize = 1 << 20
		o.BaseTableSize = 128 << 10
		o.BaseLevelSize = 512 << 10
	}
	return OptVariant{Name: name, Opt: o}
}

func randKey(n int) []byte {
	k := make([]byte, n)
	_, _ = rand.Read(k)
	return k
}
