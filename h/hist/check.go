package hist

import (
	"bytes"
	"fmt"
	"sort"
	"strings"
	"time"

	"verif/h/core"
	"verif/h/model"
)

// Stats is coverage measured by the read oracle.
type Stats struct {
	Gets, GetsFound, GetsOwn, Iters, IterItems, HeldReads int64
	ByPath                                                map[string]int64
}

// writerInfo describes the transaction that wrote the value a read returned (from its token).
func writerInfo(h *History, headTok string) string {
	var id, n int
	if _, err := fmt.Sscanf(headTok, "t%d.%d", &id, &n); err != nil {
		return ""
	}
	for _, t := range h.Txns {
		if t.ID == id {
			var ws []string
			for _, w := range t.Writes {
				ws = append(ws, fmt.Sprintf("%x del=%v tok=%s len=%d exp=%d err=%q", w.Key, w.Ver.Del, w.Ver.Token, w.Ver.Len, w.Ver.ExpiresAt, w.Err))
			}
			return fmt.Sprintf("writer txn %d: client=%d readTs=%d commitTs=%d commitErr=%q finished=%v async=%v marker=%q writes=%v", t.ID, t.Client, t.ReadTs, t.CommitTs, t.CommitErr, t.Finished, t.Async, t.Marker, ws)
		}
	}
	return "writer txn not in history"
}

func describeRead(t *TxnRec, rr *ReadRec) map[string]any {
	d := map[string]any{"txn": t.ID, "client": t.Client, "update": t.Update, "readTs": t.ReadTs, "kind": rr.Kind}
	if rr.Kind == "get" {
		d["key"] = fmt.Sprintf("%x", rr.Key)
		d["found"] = rr.Found
		d["got"] = fmt.Sprintf("v%d len%d meta%d exp%d path=%s err=%s writer=%s", rr.Got.Version, rr.Got.ValLen, rr.Got.UserMeta, rr.Got.ExpiresAt, rr.Got.Path, rr.Got.ValErr, rr.Got.Head)
		d["own"] = rr.Own != nil
	} else {
		d["opts"] = fmt.Sprintf("rev=%v all=%v prefix=%x since=%d onlykey=%x prefetch=%d", rr.Opts.Reverse, rr.Opts.AllVersions, rr.Opts.Prefix, rr.Opts.SinceTs, rr.Opts.OnlyKey, rr.Prefetch)
		d["seek"] = fmt.Sprintf("%x", rr.Seek)
		d["rewind"] = rr.Rewind
		d["vfp"] = fmt.Sprintf("%x", rr.VFP)
		var got []string
		for _, it := range rr.Items {
			got = append(got, fmt.Sprintf("%x@%d", it.Key, it.Version))
		}
		if len(got) > 60 {
			got = got[:60]
		}
		d["got"] = got
		d["overlayKeys"] = len(rr.Overlay)
	}
	return d
}

func cmpItem(got ItemRec, key string, want model.Ver, wantTs uint64, allVersions bool, now uint64) string {
	if got.Key != key {
		return fmt.Sprintf("key %x want %x", got.Key, key)
	}
	if got.Version != wantTs {
		return fmt.Sprintf("version %d want %d", got.Version, wantTs)
	}
	if got.ValErr != "" {
		return "value error " + got.ValErr
	}
	if allVersions && got.Dead != want.Dead(now) {
		return fmt.Sprintf("deleted/expired flag %v want %v", got.Dead, want.Dead(now))
	}
	wv := want.Value()
	if got.ValLen != len(wv) || got.ValSum != sum8(wv) {
		return fmt.Sprintf("value differs (len %d want %d, path %s)", got.ValLen, len(wv), got.Path)
	}
	if got.UserMeta != want.UserMeta {
		return fmt.Sprintf("user meta %d want %d", got.UserMeta, want.UserMeta)
	}
	if got.ExpiresAt != want.ExpiresAt {
		return fmt.Sprintf("expiry %d want %d", got.ExpiresAt, want.ExpiresAt)
	}
	if got.Discard != want.Discard {
		return fmt.Sprintf("discard-earlier flag %v want %v", got.Discard, want.Discard)
	}
	return ""
}

// resurrected reports whether a read that returned key@version saw a version that the model says
// is shadowed by a newer delete/expired version at or below the read timestamp.
func resurrected(m *model.DB, key string, version, readTs, now uint64) bool {
	nv, ok := m.Newest(key, readTs)
	if !ok || !nv.Dead(now) || version >= nv.Ts {
		return false
	}
	for _, v := range m.M[key] {
		if v.Ts == version {
			return true
		}
	}
	return false
}

// CheckReads compares every recorded read with the model. sigPrefix is "<ID>|<workload>".
func CheckReads(c *core.Ctx, sigPrefix string, h *History, m *model.DB) Stats {
	now := uint64(time.Now().Unix())
	st := Stats{ByPath: map[string]int64{}}
	for _, t := range h.Txns {
		for i := range t.Reads {
			rr := &t.Reads[i]
			if rr.Kind == "get" {
				st.Gets++
				if rr.Err != "" {
					c.Violation(sigPrefix+"|get|error", fmt.Sprintf("Get returned error %s", rr.Err), describeRead(t, rr))
					continue
				}
				var want model.Ver
				var ok bool
				wantTs := uint64(0)
				if rr.Own != nil {
					st.GetsOwn++
					want, ok = *rr.Own, !rr.Own.Dead(now)
					wantTs = t.ReadTs
				} else {
					want, ok = m.Visible(rr.Key, t.ReadTs, now)
					wantTs = want.Ts
				}
				if ok != rr.Found {
					kind := "missing"
					if rr.Found {
						kind = "phantom"
						if resurrected(m, rr.Key, rr.Got.Version, t.ReadTs, now) {
							kind = "resurrected-after-delete"
						}
					}
					d := describeRead(t, rr)
					d["writer"] = writerInfo(h, rr.Got.Head)
					if nv, ok := m.Newest(rr.Key, t.ReadTs); ok {
						d["model_newest"] = fmt.Sprintf("ts=%d del=%v exp=%d tok=%s txn=%d", nv.Ts, nv.Del, nv.ExpiresAt, nv.Token, nv.Txn)
						d["model_newest_writer"] = writerInfo(h, fmt.Sprintf("t%d.0", nv.Txn))
					}
					c.Violation(sigPrefix+"|get|"+kind, fmt.Sprintf("Get(%x) at readTs %d found=%v, model says %v (model version %d, own=%v)", rr.Key, t.ReadTs, rr.Found, ok, want.Ts, rr.Own != nil), d)
					continue
				}
				if ok {
					st.GetsFound++
					st.ByPath["get-"+rr.Got.Path]++
					if d := cmpItem(rr.Got, rr.Key, want, wantTs, false, now); d != "" {
						c.Violation(sigPrefix+"|get|"+strings.SplitN(d, " ", 2)[0], fmt.Sprintf("Get(%x) at readTs %d: %s (own=%v)", rr.Key, t.ReadTs, d, rr.Own != nil), describeRead(t, rr))
					}
				}
				continue
			}
			st.Iters++
			seek := rr.Seek
			if rr.Rewind {
				seek = nil
			}
			exp := m.Iter(rr.Opts, t.ReadTs, rr.Overlay, seek, now)
			if rr.VFP != nil {
				for j, it := range exp {
					if !bytes.HasPrefix([]byte(it.Key), rr.VFP) {
						exp = exp[:j]
						break
					}
				}
			}
			all := rr.Opts.AllVersions || rr.Opts.OnlyKey != nil
			dir := "fwd"
			if rr.Opts.Reverse {
				dir = "rev"
			}
			shape := dir
			if all {
				shape += "+all"
			}
			if len(rr.Opts.Prefix) > 0 {
				shape += "+prefix"
			}
			if rr.Opts.OnlyKey != nil {
				shape += "+keyiter"
			}
			if rr.Opts.SinceTs > 0 {
				shape += "+since"
			}
			if rr.VFP != nil {
				shape += "+vfp"
			}
			bad := ""
			for j, got := range rr.Items {
				if j >= len(exp) {
					bad = fmt.Sprintf("item %d (%x@%d) is beyond the %d items the model expects", j, got.Key, got.Version, len(exp))
					if !all && resurrected(m, got.Key, got.Version, t.ReadTs, now) {
						shape = "resurrected-after-delete"
					}
					break
				}
				wantTs := exp[j].Ver.Ts
				if d := cmpItem(got, exp[j].Key, exp[j].Ver, wantTs, all, now); d != "" {
					bad = fmt.Sprintf("item %d: %s", j, d)
					if !all && resurrected(m, got.Key, got.Version, t.ReadTs, now) {
						shape = "resurrected-after-delete"
					}
					break
				}
				st.IterItems++
				st.ByPath["iter-"+got.Path+fmt.Sprintf("-prefetch%v", rr.Prefetch >= 0)]++
			}
			if bad == "" && rr.Exhausted && len(rr.Items) != len(exp) {
				bad = fmt.Sprintf("iterator ended after %d items, model expects %d (next expected %x@%d)", len(rr.Items), len(exp), exp[len(rr.Items)].Key, exp[len(rr.Items)].Ver.Ts)
			}
			if bad != "" {
				d := describeRead(t, rr)
				var ex []string
				for _, it := range exp {
					ex = append(ex, fmt.Sprintf("%x@%d", it.Key, it.Ver.Ts))
				}
				if len(ex) > 60 {
					ex = ex[:60]
				}
				d["expected"] = ex
				if shape == "resurrected-after-delete" {
					c.Violation(sigPrefix+"|get|"+shape, fmt.Sprintf("iterator at readTs %d yields a key whose newest version is a delete: %s", t.ReadTs, bad), d)
				} else {
					c.Violation(sigPrefix+"|iter|"+shape, fmt.Sprintf("iterator (%s) at readTs %d: %s", shape, t.ReadTs, bad), d)
				}
			}
		}
	}
	return st
}

// readSet returns the keys the statement says must be tracked for conflict detection.
func readSet(t *TxnRec) map[string]struct{} {
	rs := map[string]struct{}{}
	for _, rr := range t.Reads {
		if rr.Kind == "get" {
			if rr.Own == nil && rr.Err == "" {
				rs[rr.Key] = struct{}{}
			}
			continue
		}
		for _, it := range rr.Items {
			rs[it.Key] = struct{}{}
		}
		if !rr.Rewind && len(rr.Seek) > 0 {
			rs[string(rr.Seek)] = struct{}{}
		}
	}
	return rs
}

// maybeReadSet is a superset of what badger may have tracked (used for the must-accept direction).
func maybeReadSet(t *TxnRec) map[string]struct{} {
	rs := readSet(t)
	for _, rr := range t.Reads {
		if rr.Kind == "iter" {
			if len(rr.Opts.Prefix) > 0 {
				rs[string(rr.Opts.Prefix)] = struct{}{} // Rewind == Seek(prefix) tracks the prefix as a key
			}
			if rr.Opts.OnlyKey != nil {
				rs[string(rr.Opts.OnlyKey)] = struct{}{}
			}
		}
	}
	return rs
}

// CheckSSI runs the conflict oracles (a) must-reject and (b) must-accept.
func CheckSSI(c *core.Ctx, sigPrefix string, h *History) (mustReject, conflicts int64) {
	var committed []*TxnRec
	for _, t := range h.Txns {
		if t.CommitTs != 0 {
			committed = append(committed, t)
		}
	}
	sort.Slice(committed, func(i, j int) bool { return committed[i].CommitTs < committed[j].CommitTs })
	writes := make([]map[string]model.Ver, len(committed))
	for i, t := range committed {
		writes[i] = t.Pending()
	}
	for _, t := range h.Txns {
		if !t.Update || !t.Finished {
			continue
		}
		if t.CommitTs != 0 {
			rs := readSet(t)
			if len(rs) == 0 {
				continue
			}
			for i, w := range committed {
				if w.CommitTs <= t.ReadTs {
					continue
				}
				if w.CommitTs >= t.CommitTs {
					break
				}
				mustReject++
				for k := range writes[i] {
					if _, ok := rs[k]; ok {
						c.Violation(sigPrefix+"|ssi|missed-conflict", fmt.Sprintf("txn %d (readTs %d, commitTs %d) read key %x which txn %d wrote at commitTs %d, yet it committed", t.ID, t.ReadTs, t.CommitTs, k, w.ID, w.CommitTs),
							map[string]any{"reader": t.ID, "writer": w.ID, "key": fmt.Sprintf("%x", k), "readTs": t.ReadTs, "readerCommitTs": t.CommitTs, "writerCommitTs": w.CommitTs})
						break
					}
				}
			}
			continue
		}
		if strings.Contains(t.CommitErr, "Transaction Conflict") {
			conflicts++
			rs := maybeReadSet(t)
			justified := false
			for i, w := range committed {
				if w.CommitTs <= t.ReadTs || w.CommitCall > t.CommitRet {
					continue
				}
				for k := range writes[i] {
					if _, ok := rs[k]; ok {
						justified = true
						break
					}
				}
				if justified {
					break
				}
			}
			if !justified {
				var keys []string
				for k := range rs {
					keys = append(keys, fmt.Sprintf("%x", k))
				}
				sort.Strings(keys)
				c.Violation(sigPrefix+"|ssi|spurious-conflict", fmt.Sprintf("txn %d (readTs %d) got ErrConflict but no committed transaction after its read timestamp wrote any key it read", t.ID, t.ReadTs),
					map[string]any{"txn": t.ID, "readTs": t.ReadTs, "readKeys": keys})
			}
		}
	}
	return
}

// CheckCommitOrder checks C03's timestamp and visibility-order rules.
func CheckCommitOrder(c *core.Ctx, sigPrefix string, h *History) (pairs int64) {
	var committed []*TxnRec
	seen := map[uint64]int{}
	for _, t := range h.Txns {
		if t.CommitTs == 0 {
			continue
		}
		if o, dup := seen[t.CommitTs]; dup {
			c.Violation(sigPrefix+"|commit|duplicate-ts", fmt.Sprintf("txns %d and %d both have commit timestamp %d", o, t.ID, t.CommitTs), nil)
		}
		seen[t.CommitTs] = t.ID
		committed = append(committed, t)
	}
	// real-time order => timestamp order. Sort by CommitRet and sweep.
	byRet := append([]*TxnRec(nil), committed...)
	sort.Slice(byRet, func(i, j int) bool { return byRet[i].CommitRet < byRet[j].CommitRet })
	byCall := append([]*TxnRec(nil), committed...)
	sort.Slice(byCall, func(i, j int) bool { return byCall[i].CommitCall < byCall[j].CommitCall })
	// for each B in call order, max ts among A with A.CommitRet < B.CommitCall must be < ts(B)
	j := 0
	var maxTs uint64
	var maxTxn int
	for _, b := range byCall {
		for j < len(byRet) && byRet[j].CommitRet < b.CommitCall {
			if byRet[j].CommitTs > maxTs {
				maxTs, maxTxn = byRet[j].CommitTs, byRet[j].ID
			}
			j++
		}
		if j > 0 {
			pairs++
		}
		if maxTs >= b.CommitTs && maxTxn != b.ID {
			c.Violation(sigPrefix+"|commit|ts-order", fmt.Sprintf("txn %d committed (returned) before txn %d called Commit, but got timestamp %d >= %d", maxTxn, b.ID, maxTs, b.CommitTs), nil)
		}
	}
	// a transaction started after an ack has readTs >= that commit's ts
	byBegin := append([]*TxnRec(nil), h.Txns...)
	sort.Slice(byBegin, func(i, j int) bool { return byBegin[i].BeginCall < byBegin[j].BeginCall })
	j, maxTs, maxTxn = 0, 0, 0
	for _, t := range byBegin {
		if t.Managed {
			continue
		}
		for j < len(byRet) && byRet[j].CommitRet < t.BeginCall {
			if byRet[j].CommitTs > maxTs {
				maxTs, maxTxn = byRet[j].CommitTs, byRet[j].ID
			}
			j++
		}
		if t.ReadTs < maxTs {
			c.Violation(sigPrefix+"|commit|stale-readts", fmt.Sprintf("txn %d started after txn %d's Commit had returned (ts %d) but got read timestamp %d", t.ID, maxTxn, maxTs, t.ReadTs), nil)
		}
	}
	return
}
